// ---------------------------------------------------------------------------------------------
// Theory of the incremental hasher's CV stack (used by the contracts of `Hasher`).
//
// The stack of an incremental hasher that has absorbed T complete chunks holds the chaining
// values of the left children along the right spine of the specification's tree over those T
// chunks: with n entries, entry 0 covers lp2(T) chunks (all T if n == 1) and the other n-1
// entries cover the rest in the same way (`sp_sizes`, `sp_stack_ok`). Merging the two top entries
// always yields the spine decomposition with n-1 entries. Pushing a new subtree of s chunks is
// only sound when the sizes are strictly decreasing powers of two and s does not exceed the
// last one -- which is what the population-count test of `merge_cv_stack` establishes.
// ---------------------------------------------------------------------------------------------

// ---- population count on naturals ------------------------------------------------------------
pub open spec fn sp_pc(n: nat) -> nat
    decreases n,
{
    if n == 0 { 0 } else { (n % 2) + sp_pc(n / 2) }
}

pub proof fn lemma_popcount64_is_pc(x: u64)
    ensures
        sp_popcount64(x) == sp_pc(x as nat),
    decreases x,
{
    if x != 0 {
        assert((x & 1) as nat == (x as nat) % 2) by (bit_vector);
        lemma_popcount64_is_pc(x / 2);
    }
}

// x a power of two, r a multiple of 2x  ==>  pc(r + x) == pc(r) + 1
pub open spec fn sp_aligned(v: nat, a: nat) -> bool
    decreases a,
{
    if a <= 1 { true } else { v % 2 == 0 && sp_aligned(v / 2, a / 2) }
}

pub proof fn lemma_pc_add_bit(r: nat, x: nat)
    requires
        sp_is_pow2(x as int),
        sp_aligned(r, 2 * x),
    ensures
        sp_pc(r + x) == sp_pc(r) + 1,
        !sp_aligned(r + x, 2 * x),
        sp_aligned(r + x, x),
    decreases x,
{
    if x > 1 {
        lemma_pow2_half(x as int);
        assert(sp_aligned(r / 2, 2 * (x / 2)));
        lemma_pc_add_bit(r / 2, x / 2);
        assert((r + x) / 2 == r / 2 + x / 2);
    } else {
        assert(sp_aligned(r, 2));
    }
}

pub proof fn lemma_aligned_weaken(v: nat, a: nat, b: nat)
    requires
        sp_is_pow2(a as int),
        sp_is_pow2(b as int),
        a <= b,
        sp_aligned(v, b),
    ensures
        sp_aligned(v, a),
    decreases a,
{
    if a > 1 {
        lemma_pow2_half(a as int);
        lemma_pow2_half(b as int);
        lemma_aligned_weaken(v / 2, a / 2, b / 2);
    }
}

pub proof fn lemma_aligned_add(u: nat, v: nat, a: nat)
    requires
        sp_is_pow2(a as int),
        sp_aligned(u, a),
        sp_aligned(v, a),
    ensures
        sp_aligned(u + v, a),
    decreases a,
{
    if a > 1 {
        lemma_pow2_half(a as int);
        lemma_aligned_add(u / 2, v / 2, a / 2);
        assert((u + v) / 2 == u / 2 + v / 2);
    }
}

pub proof fn lemma_aligned_sub(u: nat, v: nat, a: nat)
    requires
        sp_is_pow2(a as int),
        sp_aligned(u, a),
        sp_aligned(u + v, a),
    ensures
        sp_aligned(v, a),
    decreases a,
{
    if a > 1 {
        lemma_pow2_half(a as int);
        assert((u + v) / 2 == u / 2 + v / 2);
        lemma_aligned_sub(u / 2, v / 2, a / 2);
    }
}

pub proof fn lemma_pow2_aligned(b: nat, a: nat)
    requires
        sp_is_pow2(a as int),
        sp_is_pow2(b as int),
        a <= b,
    ensures
        sp_aligned(b, a),
    decreases a,
{
    if a > 1 {
        lemma_pow2_half(a as int);
        lemma_pow2_half(b as int);
        lemma_pow2_aligned(b / 2, a / 2);
    }
}

pub proof fn lemma_aligned_zero(a: nat)
    ensures
        sp_aligned(0, a),
    decreases a,
{
    if a > 1 {
        lemma_aligned_zero(a / 2);
    }
}

// an aligned positive number is at least the alignment
pub proof fn lemma_aligned_ge(v: nat, a: nat)
    requires
        sp_is_pow2(a as int),
        sp_aligned(v, a),
        v > 0,
    ensures
        v >= a,
    decreases a,
{
    if a > 1 {
        lemma_pow2_half(a as int);
        lemma_aligned_ge(v / 2, a / 2);
    }
}

// ---- sequences of subtree sizes ----------------------------------------------------------------
pub open spec fn sq_sum(s: Seq<nat>) -> nat
    decreases s.len(),
{
    if s.len() == 0 { 0 } else { sq_sum(s.drop_last()) + s.last() }
}

pub open spec fn sq_pow2(s: Seq<nat>) -> bool {
    forall|i: int| 0 <= i < s.len() ==> sp_is_pow2(#[trigger] s[i] as int)
}

// strictly decreasing powers of two
pub open spec fn sq_dec(s: Seq<nat>) -> bool {
    sq_pow2(s) && forall|i: int| 0 <= i < s.len() - 1 ==> #[trigger] s[i] > s[i + 1]
}

// strictly decreasing powers of two, except that the last two may be equal
pub open spec fn sq_lazy(s: Seq<nat>) -> bool {
    &&& sq_pow2(s)
    &&& forall|i: int| 0 <= i < s.len() - 2 ==> #[trigger] s[i] > s[i + 1]
    &&& (s.len() >= 2 ==> s[s.len() - 2] >= s[s.len() - 1])
}

// the elements before the last are multiples of twice the last (dec) ...
pub proof fn lemma_dec_aligned(s: Seq<nat>)
    requires
        sq_dec(s),
        s.len() >= 1,
    ensures
        sp_aligned(sq_sum(s.drop_last()), 2 * s.last()),
        sq_sum(s) > 0,
        s.len() >= 2 ==> sq_sum(s.drop_last()) >= 2 * s.last(),
    decreases s.len(),
{
    let x = s.last();
    let r = s.drop_last();
    if r.len() == 0 {
        lemma_aligned_zero(2 * x);
    } else {
        lemma_dec_aligned(r);
        let y = r.last();
        assert(y == s[s.len() - 2]);
        assert(y > x);
        assert(sp_is_pow2(y as int));
        lemma_pow2_gap(x as int, y as int);
        lemma_pow2_double(x as int);
        // sum(r) = sum(r.drop_last()) + y, both aligned to 2x
        lemma_pow2_double(y as int);
        lemma_aligned_weaken(sq_sum(r.drop_last()), 2 * x, 2 * y);
        lemma_pow2_aligned(y, 2 * x);
        lemma_aligned_add(sq_sum(r.drop_last()), y, 2 * x);
    }
}

// Lemma A: strictly decreasing powers of two: the length is the population count of the sum
pub proof fn lemma_dec_count(s: Seq<nat>)
    requires
        sq_dec(s),
    ensures
        s.len() == sp_pc(sq_sum(s)),
    decreases s.len(),
{
    if s.len() > 0 {
        lemma_dec_count(s.drop_last());
        lemma_dec_aligned(s);
        lemma_pc_add_bit(sq_sum(s.drop_last()), s.last());
    }
}

pub open spec fn sq_merge_last(s: Seq<nat>) -> Seq<nat> {
    s.subrange(0, s.len() - 2).push(s[s.len() - 2] + s[s.len() - 1])
}

pub proof fn lemma_merge_last_lazy(s: Seq<nat>)
    requires
        sq_lazy(s),
        s.len() >= 2,
        s[s.len() - 2] == s[s.len() - 1],
    ensures
        sq_lazy(sq_merge_last(s)),
        sq_sum(sq_merge_last(s)) == sq_sum(s),
        sq_merge_last(s).len() == s.len() - 1,
{
    let n = s.len() as int;
    let m = sq_merge_last(s);
    let x = s[n - 1];
    lemma_pow2_double(x as int);
    assert(m.drop_last() =~= s.subrange(0, n - 2));
    assert(s.drop_last().drop_last() =~= s.subrange(0, n - 2));
    assert(s.drop_last().last() == s[n - 2]);
    assert(sq_sum(s.drop_last()) == sq_sum(s.drop_last().drop_last()) + s.drop_last().last());
    assert(sq_sum(s) == sq_sum(s.drop_last()) + s.last());
    assert(sq_sum(m) == sq_sum(m.drop_last()) + m.last());
    if n >= 3 {
        lemma_pow2_gap(s[n - 2] as int, s[n - 3] as int);
    }
    assert forall|i: int| 0 <= i < m.len() implies sp_is_pow2(#[trigger] m[i] as int) by {
        if i < n - 2 { assert(m[i] == s[i]); }
    }
}

// Lemma BL: a lazy sequence is either strictly decreasing (length == popcount of the sum) or its
// last two elements are equal (length > popcount of the sum)
pub proof fn lemma_lazy_count(s: Seq<nat>)
    requires
        sq_lazy(s),
    ensures
        s.len() >= sp_pc(sq_sum(s)),
        s.len() == sp_pc(sq_sum(s)) <==> sq_dec(s),
        !sq_dec(s) ==> s.len() >= 2 && s[s.len() - 2] == s[s.len() - 1],
    decreases s.len(),
{
    let n = s.len() as int;
    if n >= 2 && s[n - 2] == s[n - 1] {
        lemma_merge_last_lazy(s);
        lemma_lazy_count(sq_merge_last(s));
        assert(!sq_dec(s)) by { assert(!(s[n - 2] > s[n - 2 + 1])); }
    } else {
        assert(sq_dec(s)) by {
            assert forall|i: int| 0 <= i < s.len() - 1 implies #[trigger] s[i] > s[i + 1] by { }
        }
        lemma_dec_count(s);
    }
}

// a strictly decreasing sequence sums to less than twice its first element
pub proof fn lemma_dec_sum_bound(s: Seq<nat>)
    requires
        sq_dec(s),
        s.len() >= 1,
    ensures
        s[0] <= sq_sum(s) < 2 * s[0],
        sq_sum(s) + s.last() <= 2 * s[0],
    decreases s.len(),
{
    assert(sp_is_pow2(s[s.len() - 1] as int));
    if s.len() >= 2 {
        let r = s.drop_last();
        lemma_dec_sum_bound(r);
        let n = s.len() as int;
        lemma_pow2_gap(s[n - 1] as int, s[n - 2] as int);
        assert(r.last() == s[n - 2]);
        assert(r[0] == s[0]);
        assert(sq_sum(s) == sq_sum(r) + s.last());
    } else {
        assert(s.drop_last().len() == 0);
        assert(sq_sum(s.drop_last()) == 0);
        assert(sq_sum(s) == s[0]);
    }
}

// Lemma D: strictly decreasing sizes with sum t; a power of two g that divides t is at most the last size
pub proof fn lemma_dec_aligned_le_last(s: Seq<nat>, g: nat)
    requires
        sq_dec(s),
        s.len() >= 1,
        sp_is_pow2(g as int),
        sp_aligned(sq_sum(s), g),
    ensures
        g <= s.last(),
{
    let x = s.last();
    lemma_dec_aligned(s);
    lemma_pc_add_bit(sq_sum(s.drop_last()), x);
    if g > x {
        lemma_pow2_gap(x as int, g as int);
        lemma_pow2_double(x as int);
        lemma_aligned_weaken(sq_sum(s), 2 * x, g);
    }
}

// ---- the spine rule ------------------------------------------------------------------------------
// sizes of the n stack entries over t complete chunks
pub open spec fn sp_sizes(t: nat, n: nat) -> Seq<nat>
    decreases n,
{
    if n == 0 {
        Seq::<nat>::empty()
    } else if n == 1 {
        seq![t]
    } else if t < 2 {
        Seq::new(n, |i: int| 0nat)   // not a valid stack: two entries need two chunks
    } else {
        seq![sp_lp2(t)] + sp_sizes((t - sp_lp2(t)) as nat, (n - 1) as nat)
    }
}

pub proof fn lemma_sizes_len(t: nat, n: nat)
    ensures
        sp_sizes(t, n).len() == n,
    decreases n,
{
    if n >= 2 && t >= 2 {
        lemma_sizes_len((t - sp_lp2(t)) as nat, (n - 1) as nat);
    }
}

pub proof fn lemma_sum_cons(a: nat, r: Seq<nat>)
    ensures
        sq_sum(seq![a] + r) == a + sq_sum(r),
    decreases r.len(),
{
    let c = seq![a] + r;
    if r.len() == 0 {
        assert(c =~= seq![a]);
        assert(c.drop_last() =~= Seq::<nat>::empty());
        assert(sq_sum(c.drop_last()) == 0);
        assert(sq_sum(c) == sq_sum(c.drop_last()) + c.last());
    } else {
        assert(c.drop_last() =~= seq![a] + r.drop_last());
        lemma_sum_cons(a, r.drop_last());
        assert(c.last() == r.last());
        assert(sq_sum(c) == sq_sum(c.drop_last()) + c.last());
        assert(sq_sum(r) == sq_sum(r.drop_last()) + r.last());
    }
}

// sum and positivity of the sizes when they are valid (all positive)
pub proof fn lemma_sizes_sum(t: nat, n: nat)
    requires
        n >= 1,
        sq_pow2(sp_sizes(t, n)),
    ensures
        sq_sum(sp_sizes(t, n)) == t,
        t >= n,
    decreases n,
{
    if n == 1 {
        assert(seq![t].drop_last() =~= Seq::<nat>::empty());
        assert(sp_is_pow2(sp_sizes(t, n)[0] as int));
    } else {
        if t < 2 {
            assert(sp_is_pow2(sp_sizes(t, n)[0] as int));
            assert(false);
        }
        lemma_lp2(t);
        let a = sp_lp2(t);
        let r = sp_sizes((t - a) as nat, (n - 1) as nat);
        lemma_sizes_len((t - a) as nat, (n - 1) as nat);
        assert(sp_sizes(t, n) == seq![a] + r);
        assert forall|i: int| 0 <= i < r.len() implies sp_is_pow2(#[trigger] r[i] as int) by {
            assert(r[i] == sp_sizes(t, n)[i + 1]);
        }
        lemma_sizes_sum((t - a) as nat, (n - 1) as nat);
        lemma_sum_cons(a, r);
        assert(sp_is_pow2(sp_sizes(t, n)[0] as int));
        assert(t - a >= n - 1);
    }
}

// S1: the sizes with one entry less are the sizes with the last two merged
pub proof fn lemma_sizes_merge(t: nat, n: nat)
    requires
        n >= 2,
        sq_pow2(sp_sizes(t, n)),
    ensures
        sp_sizes(t, (n - 1) as nat) == sq_merge_last(sp_sizes(t, n)),
    decreases n,
{
    lemma_sizes_sum(t, n);
    lemma_sizes_len(t, n);
    lemma_lp2(t);
    let a = sp_lp2(t);
    let r = sp_sizes((t - a) as nat, (n - 1) as nat);
    lemma_sizes_len((t - a) as nat, (n - 1) as nat);
    assert(sp_sizes(t, n) == seq![a] + r);
    assert forall|i: int| 0 <= i < r.len() implies sp_is_pow2(#[trigger] r[i] as int) by {
        assert(r[i] == sp_sizes(t, n)[i + 1]);
    }
    if n == 2 {
        assert(r =~= seq![(t - a) as nat]);
        assert(sq_merge_last(sp_sizes(t, n)) =~= seq![t]);
    } else {
        lemma_sizes_merge((t - a) as nat, (n - 1) as nat);
        lemma_sizes_sum((t - a) as nat, (n - 1) as nat);
        assert(sp_sizes(t, (n - 1) as nat) == seq![a] + sp_sizes((t - a) as nat, (n - 2) as nat));
        assert(sq_merge_last(seq![a] + r) =~= seq![a] + sq_merge_last(r));
    }
}

pub proof fn lemma_dec_tail(a: nat, r: Seq<nat>)
    requires
        sq_dec(seq![a] + r),
    ensures
        sq_dec(r),
        r.len() >= 1 ==> r[0] < a,
{
    let s = seq![a] + r;
    assert forall|i: int| 0 <= i < r.len() implies sp_is_pow2(#[trigger] r[i] as int) by {
        assert(r[i] == s[i + 1]);
    }
    assert forall|i: int| 0 <= i < r.len() - 1 implies #[trigger] r[i] > r[i + 1] by {
        assert(s[i + 1] > s[i + 1 + 1]);
    }
    if r.len() >= 1 {
        assert(s[0int] > s[0int + 1]);
    }
}

// S2: pushing a subtree of s chunks (s at most the last size) onto strictly decreasing sizes
pub proof fn lemma_sizes_push(t: nat, n: nat, s: nat)
    requires
        n >= 1,
        sq_dec(sp_sizes(t, n)),
        sp_is_pow2(s as int),
        s <= sp_sizes(t, n).last(),
    ensures
        sp_sizes(t + s, n + 1) == sp_sizes(t, n).push(s),
        sq_lazy(sp_sizes(t + s, n + 1)),
    decreases n,
{
    lemma_sizes_len(t, n);
    lemma_sizes_sum(t, n);
    let sz = sp_sizes(t, n);
    if n == 1 {
        assert(sz[0] == t);
        assert(sp_is_pow2(sz[0] as int));
        lemma_lp2_concat(t, s);
        assert(sp_sizes(s, 1) =~= seq![s]);
        assert(sp_sizes(t + s, 2) =~= seq![t] + seq![s]);
        assert(sz.push(s) =~= seq![t] + seq![s]);
    } else {
        lemma_lp2(t);
        let a = sp_lp2(t);
        let r = sp_sizes((t - a) as nat, (n - 1) as nat);
        lemma_sizes_len((t - a) as nat, (n - 1) as nat);
        assert(sz == seq![a] + r);
        lemma_dec_tail(a, r);
        lemma_sizes_sum((t - a) as nat, (n - 1) as nat);
        lemma_dec_sum_bound(r);
        assert(r.last() == sz.last());
        // (t - a) + s <= 2 r[0] <= a, hence lp2(t + s) == a
        lemma_pow2_gap(r[0] as int, a as int);
        lemma_lp2_unique(t + s, a as int);
        lemma_sizes_push((t - a) as nat, (n - 1) as nat, s);
        assert(sp_sizes(t + s, n + 1) == seq![a] + sp_sizes((t + s - a) as nat, n));
        assert((seq![a] + r).push(s) =~= seq![a] + r.push(s));
    }
    let p = sz.push(s);
    assert forall|i: int| 0 <= i < p.len() implies sp_is_pow2(#[trigger] p[i] as int) by {
        if i < n { assert(p[i] == sz[i]); }
    }
    assert forall|i: int| 0 <= i < p.len() - 2 implies #[trigger] p[i] > p[i + 1] by {
        assert(sz[i] > sz[i + 1]);
    }
}

// popcount of a number below 2^k is at most k
pub open spec fn sp_two_pow(k: nat) -> nat
    decreases k,
{
    if k == 0 { 1 } else { 2 * sp_two_pow((k - 1) as nat) }
}

pub proof fn lemma_pc_bound(x: nat, k: nat)
    requires
        x < sp_two_pow(k),
    ensures
        sp_pc(x) <= k,
    decreases k,
{
    if k > 0 && x > 0 {
        lemma_pc_bound(x / 2, (k - 1) as nat);
    }
}

pub proof fn lemma_two_pow_54()
    ensures
        sp_two_pow(54) == 0x40_0000_0000_0000,
        sp_two_pow(55) == 0x80_0000_0000_0000,
{
    assert(sp_two_pow(54) == 0x40_0000_0000_0000) by (compute);
    assert(sp_two_pow(55) == 0x80_0000_0000_0000) by (compute);
}

// ---- bit masks vs alignment -------------------------------------------------------------------------
// (g - 1) & v == 0 for a power of two g  ==>  v is a multiple of g
pub proof fn lemma_mask_aligned(g: u64, v: u64)
    requires
        sp_is_pow2(g as int),
        (g - 1) as u64 & v == 0,
    ensures
        sp_aligned(v as nat, g as nat),
    decreases g,
{
    if g > 1 {
        lemma_pow2_half(g as int);
        let h: u64 = g / 2;
        assert(g == 2 * h);
        assert(((2 * h - 1) as u64 & v == 0) ==> (v % 2 == 0 && ((h - 1) as u64 & (v / 2) == 0)))
            by (bit_vector)
            requires 1 <= h <= 0x7fff_ffff_ffff_ffffu64;
        lemma_mask_aligned(h, v / 2);
    }
}

pub proof fn lemma_aligned_scale_1024(v: nat, g: nat)
    requires
        sp_is_pow2(g as int),
        sp_aligned(1024 * v, 1024 * g),
    ensures
        sp_aligned(v, g),
{
    // peel ten factors of two
    let g0 = 1024 * g;
    let v0 = 1024 * v;
    assert(sp_aligned(v0 / 2, g0 / 2));
    assert(sp_aligned(v0 / 4, g0 / 4)) by { assert(v0 / 2 / 2 == v0 / 4); assert(g0 / 2 / 2 == g0 / 4); }
    assert(sp_aligned(v0 / 8, g0 / 8)) by { assert(v0 / 4 / 2 == v0 / 8); assert(g0 / 4 / 2 == g0 / 8); }
    assert(sp_aligned(v0 / 16, g0 / 16)) by { assert(v0 / 8 / 2 == v0 / 16); assert(g0 / 8 / 2 == g0 / 16); }
    assert(sp_aligned(v0 / 32, g0 / 32)) by { assert(v0 / 16 / 2 == v0 / 32); assert(g0 / 16 / 2 == g0 / 32); }
    assert(sp_aligned(v0 / 64, g0 / 64)) by { assert(v0 / 32 / 2 == v0 / 64); assert(g0 / 32 / 2 == g0 / 64); }
    assert(sp_aligned(v0 / 128, g0 / 128)) by { assert(v0 / 64 / 2 == v0 / 128); assert(g0 / 64 / 2 == g0 / 128); }
    assert(sp_aligned(v0 / 256, g0 / 256)) by { assert(v0 / 128 / 2 == v0 / 256); assert(g0 / 128 / 2 == g0 / 256); }
    assert(sp_aligned(v0 / 512, g0 / 512)) by { assert(v0 / 256 / 2 == v0 / 512); assert(g0 / 256 / 2 == g0 / 512); }
    assert(sp_aligned(v0 / 1024, g0 / 1024)) by { assert(v0 / 512 / 2 == v0 / 1024); assert(g0 / 512 / 2 == g0 / 1024); }
}

// trailing zeros: c is a multiple of 2^tz(c)
pub proof fn lemma_tz_aligned(c: u64)
    requires
        c != 0,
    ensures
        sp_aligned(c as nat, sp_two_pow(sp_tz64(c))),
        sp_is_pow2(sp_two_pow(sp_tz64(c)) as int),
        sp_two_pow(sp_tz64(c)) <= c,
    decreases c,
{
    assert((c & 1 == 1) <==> (c % 2 == 1)) by (bit_vector);
    if c & 1 == 1 {
    } else {
        lemma_tz_aligned(c / 2);
    }
}

pub proof fn lemma_tz_lt(c: u64, k: nat)
    requires
        c != 0,
        c < sp_two_pow(k),
    ensures
        sp_tz64(c) < k,
    decreases c,
{
    assert((c & 1 == 1) <==> (c % 2 == 1)) by (bit_vector);
    if c & 1 == 1 {
    } else {
        lemma_tz_lt(c / 2, (k - 1) as nat);
    }
}

// ---- the stack's chaining values ---------------------------------------------------------------------
// st is the spine decomposition (with st.len() entries) of the complete chunks x starting at counter t0
pub open spec fn sp_stack_ok(st: Seq<SpCv>, x: Seq<u8>, t0: u64, key: Seq<u32>, flags: u8) -> bool
    decreases st.len(),
{
    if st.len() == 0 {
        x.len() == 0
    } else if st.len() == 1 {
        x.len() >= 1024 && x.len() % 1024 == 0 && st[0] == sp_subtree_cv(x, t0, key, flags)
    } else {
        let l = sp_left_len(x.len()) as int;
        &&& x.len() >= 2048
        &&& x.len() % 1024 == 0
        &&& st[0] == sp_subtree_cv(x.subrange(0, l), t0, key, flags)
        &&& sp_stack_ok(st.subrange(1, st.len() as int), x.subrange(l, x.len() as int), (t0 + l / 1024) as u64, key, flags)
    }
}

// unfolding of sp_stack_ok
pub proof fn lemma_stack_ok_unfold(st: Seq<SpCv>, x: Seq<u8>, t0: u64, key: Seq<u32>, flags: u8)
    requires
        sp_stack_ok(st, x, t0, key, flags),
        st.len() >= 1,
    ensures
        x.len() >= 1024 * st.len(),
        x.len() % 1024 == 0,
        st.len() == 1 ==> st[0] == sp_subtree_cv(x, t0, key, flags),
        st.len() >= 2 ==> ({
            let l = sp_left_len(x.len()) as int;
            &&& 1024 <= l < x.len()
            &&& l % 1024 == 0
            &&& st[0] == sp_subtree_cv(x.subrange(0, l), t0, key, flags)
            &&& sp_stack_ok(st.subrange(1, st.len() as int), x.subrange(l, x.len() as int), (t0 + l / 1024) as u64, key, flags)
        }),
    decreases st.len(),
{
    if st.len() >= 2 {
        lemma_left_len_bounds(x.len());
        let l = sp_left_len(x.len()) as int;
        lemma_stack_ok_unfold(st.subrange(1, st.len() as int), x.subrange(l, x.len() as int), (t0 + l / 1024) as u64, key, flags);
    }
}

// merging the two top entries keeps the stack a spine decomposition of the same bytes
pub proof fn lemma_stack_merge(st: Seq<SpCv>, x: Seq<u8>, t0: u64, key: Seq<u32>, flags: u8)
    requires
        st.len() >= 2,
        sp_stack_ok(st, x, t0, key, flags),
        t0 + x.len() / 1024 <= 0x1_0000_0000_0000_0000,
    ensures
        sp_stack_ok(
            st.subrange(0, st.len() - 2).push(sp_parent_cv(st[st.len() - 2], st[st.len() - 1], key, flags)),
            x, t0, key, flags),
    decreases st.len(),
{
    let n = st.len() as int;
    let p = sp_parent_cv(st[n - 2], st[n - 1], key, flags);
    let m = st.subrange(0, n - 2).push(p);
    lemma_stack_ok_unfold(st, x, t0, key, flags);
    let l = sp_left_len(x.len()) as int;
    let rest = st.subrange(1, n);
    let xr = x.subrange(l, x.len() as int);
    let t1 = (t0 + l / 1024) as u64;
    if n == 2 {
        assert(rest[0] == st[1]);
        lemma_stack_ok_unfold(rest, xr, t1, key, flags);
        assert(sp_num_chunks(x.len()) == x.len() / 1024);
        lemma_subtree_split(x, t0, key, flags);
        assert(p == sp_subtree_cv(x, t0, key, flags));
        assert(m =~= seq![p]);
        assert(m.len() == 1);
        assert(sp_stack_ok(m, x, t0, key, flags));
    } else {
        lemma_stack_merge(rest, xr, t1, key, flags);
        assert(rest[rest.len() - 2] == st[n - 2]);
        assert(rest[rest.len() - 1] == st[n - 1]);
        let mr = rest.subrange(0, rest.len() - 2).push(p);
        assert(m.subrange(1, m.len() as int) =~= mr);
        assert(m[0] == st[0]);
        assert(m.len() >= 2);
        assert(sp_stack_ok(m, x, t0, key, flags));
    }
}

// numeric facts used when descending one level of a strictly decreasing stack
pub open spec fn sp_first_size(t: nat, n: nat) -> nat {
    if n == 1 { t } else { sp_lp2(t) }
}

pub proof fn lemma_sizes_descend(t: nat, n: nat, s: nat)
    requires
        n >= 1,
        sq_dec(sp_sizes(t, n)),
        sp_is_pow2(s as int),
        s <= sp_sizes(t, n).last() || s == 1,
    ensures
        ({
            let a = sp_first_size(t, n);
            &&& sp_is_pow2(a as int)
            &&& 1 <= a <= t
            &&& sp_lp2(t + s) == a
            &&& (n == 1 ==> a == t)
            &&& (n >= 2 ==> t - a >= 1 && sp_lp2(t) == a
                    && sq_dec(sp_sizes((t - a) as nat, (n - 1) as nat))
                    && sp_sizes((t - a) as nat, (n - 1) as nat).last() == sp_sizes(t, n).last())
        }),
{
    lemma_sizes_len(t, n);
    lemma_sizes_sum(t, n);
    let sz = sp_sizes(t, n);
    assert(sp_is_pow2(sz[sz.len() - 1] as int));
    if n == 1 {
        assert(sz[0] == t);
        lemma_lp2_concat(t, s);
    } else {
        lemma_lp2(t);
        let a = sp_lp2(t);
        let r = sp_sizes((t - a) as nat, (n - 1) as nat);
        lemma_sizes_len((t - a) as nat, (n - 1) as nat);
        assert(sz == seq![a] + r);
        lemma_dec_tail(a, r);
        lemma_sizes_sum((t - a) as nat, (n - 1) as nat);
        lemma_dec_sum_bound(r);
        assert(r.last() == sz.last());
        lemma_pow2_gap(r[0] as int, a as int);
        lemma_lp2_unique(t + s, a as int);
    }
}

// pushing the chaining value of the next s chunks
pub proof fn lemma_stack_push(st: Seq<SpCv>, x: Seq<u8>, w: Seq<u8>, t0: u64, key: Seq<u32>, flags: u8, s: nat, cv: SpCv)
    requires
        sp_stack_ok(st, x, t0, key, flags),
        x.len() % 1024 == 0,
        st.len() >= 1 ==> sq_dec(sp_sizes(x.len() / 1024, st.len())) && s <= sp_sizes(x.len() / 1024, st.len()).last(),
        sp_is_pow2(s as int),
        w.len() == 1024 * s,
        cv == sp_subtree_cv(w, (t0 + x.len() / 1024) as u64, key, flags),
        t0 + (x.len() + w.len()) / 1024 <= 0x1_0000_0000_0000_0000,
    ensures
        sp_stack_ok(st.push(cv), x + w, t0, key, flags),
    decreases st.len(),
{
    let n = st.len();
    let t = x.len() / 1024;
    let y = x + w;
    let q = st.push(cv);
    if n == 0 {
        assert(y =~= w);
        assert(q.len() == 1);
        assert(q[0] == cv);
    } else {
        lemma_sizes_descend(t, n, s);
        lemma_stack_ok_unfold(st, x, t0, key, flags);
        let a = sp_first_size(t, n);
        let l = 1024 * a as int;
        assert(sp_num_chunks(y.len()) == t + s);
        assert(sp_left_len(y.len()) == l);
        let t1 = (t0 + l / 1024) as u64;
        assert(y.len() >= 2048);
        assert(q.len() >= 2);
        assert(q[0] == st[0]);
        if n == 1 {
            assert(l == x.len());
            assert(y.subrange(0, l) =~= x);
            assert(y.subrange(l, y.len() as int) =~= w);
            assert(q.subrange(1, 2) =~= seq![cv]);
            assert(sp_stack_ok(seq![cv], w, t1, key, flags));
        } else {
            assert(sp_num_chunks(x.len()) == t);
            assert(sp_left_len(x.len()) == l);
            let xr = x.subrange(l, x.len() as int);
            assert(y.subrange(0, l) =~= x.subrange(0, l));
            assert(y.subrange(l, y.len() as int) =~= xr + w);
            assert(xr.len() / 1024 == t - a);
            lemma_stack_push(st.subrange(1, n as int), xr, w, t1, key, flags, s, cv);
            assert(q.subrange(1, n as int + 1) =~= st.subrange(1, n as int).push(cv));
        }
    }
}

// ---- folding the stack at finalization ------------------------------------------------------------------
// for i = st.len()-1 down to 0:  top = parent_node(st[i], cv(top))
pub open spec fn sp_fold(st: Seq<SpCv>, top: SpOut, key: Seq<u32>, flags: u8) -> SpOut
    decreases st.len(),
{
    if st.len() == 0 {
        top
    } else {
        sp_fold(st.drop_last(), sp_parent_out(st.last(), sp_out_cv(top), key, flags), key, flags)
    }
}

pub proof fn lemma_fold_cons(a: SpCv, r: Seq<SpCv>, top: SpOut, key: Seq<u32>, flags: u8)
    ensures
        sp_fold(seq![a] + r, top, key, flags) == sp_parent_out(a, sp_out_cv(sp_fold(r, top, key, flags)), key, flags),
    decreases r.len(),
{
    let c = seq![a] + r;
    if r.len() == 0 {
        assert(c =~= seq![a]);
        assert(c.drop_last() =~= Seq::<SpCv>::empty());
        assert(sp_fold(c.drop_last(), sp_parent_out(a, sp_out_cv(top), key, flags), key, flags)
            == sp_parent_out(a, sp_out_cv(top), key, flags));
    } else {
        assert(c.drop_last() =~= seq![a] + r.drop_last());
        assert(c.last() == r.last());
        lemma_fold_cons(a, r.drop_last(), sp_parent_out(r.last(), sp_out_cv(top), key, flags), key, flags);
    }
}

pub proof fn lemma_subtree_out_cv(x: Seq<u8>, t0: u64, key: Seq<u32>, flags: u8)
    requires
        t0 + sp_num_chunks(x.len()) <= 0x1_0000_0000_0000_0000,
    ensures
        sp_out_cv(sp_subtree_out(x, t0, key, flags)) == sp_subtree_cv(x, t0, key, flags),
{
    if x.len() > 1024 {
        lemma_subtree_split(x, t0, key, flags);
    } else {
        lemma_subtree_one_chunk(x, t0, key, flags);
    }
}

// F0: no partial chunk; the stack has at least two entries: the fold that starts with the parent of the
// two top entries yields the top node of the subtree over x
pub proof fn lemma_fold_full(st: Seq<SpCv>, x: Seq<u8>, t0: u64, key: Seq<u32>, flags: u8)
    requires
        st.len() >= 2,
        sp_stack_ok(st, x, t0, key, flags),
        t0 + x.len() / 1024 <= 0x1_0000_0000_0000_0000,
    ensures
        sp_fold(st.subrange(0, st.len() - 2), sp_parent_out(st[st.len() - 2], st[st.len() - 1], key, flags), key, flags)
            == sp_subtree_out(x, t0, key, flags),
    decreases st.len(),
{
    let n = st.len() as int;
    lemma_stack_ok_unfold(st, x, t0, key, flags);
    let l = sp_left_len(x.len()) as int;
    let rest = st.subrange(1, n);
    let xr = x.subrange(l, x.len() as int);
    let t1 = (t0 + l / 1024) as u64;
    let top = sp_parent_out(st[n - 2], st[n - 1], key, flags);
    if n == 2 {
        assert(rest[0] == st[1]);
        lemma_stack_ok_unfold(rest, xr, t1, key, flags);
        assert(st.subrange(0, 0) =~= Seq::<SpCv>::empty());
        assert(sp_fold(st.subrange(0, 0), top, key, flags) == top);
    } else {
        lemma_fold_full(rest, xr, t1, key, flags);
        assert(rest[rest.len() - 2] == st[n - 2]);
        assert(rest[rest.len() - 1] == st[n - 1]);
        assert(st.subrange(0, n - 2) =~= seq![st[0]] + rest.subrange(0, rest.len() - 2));
        lemma_fold_cons(st[0], rest.subrange(0, rest.len() - 2), top, key, flags);
        assert(sp_num_chunks(xr.len()) == xr.len() / 1024);
        lemma_subtree_out_cv(xr, t1, key, flags);
    }
}

// F1: a non-empty partial (or full, not yet finalized) last chunk y on top of a strictly decreasing stack
pub proof fn lemma_fold_partial(st: Seq<SpCv>, x: Seq<u8>, y: Seq<u8>, t0: u64, key: Seq<u32>, flags: u8)
    requires
        sp_stack_ok(st, x, t0, key, flags),
        x.len() % 1024 == 0,
        st.len() >= 1 ==> sq_dec(sp_sizes(x.len() / 1024, st.len())),
        1 <= y.len() <= 1024,
        t0 + x.len() / 1024 + 1 <= 0x1_0000_0000_0000_0000,
    ensures
        sp_fold(st, sp_chunk_out(key, y, (t0 + x.len() / 1024) as u64, flags), key, flags)
            == sp_subtree_out(x + y, t0, key, flags),
    decreases st.len(),
{
    let n = st.len();
    let t = x.len() / 1024;
    let z = x + y;
    let top = sp_chunk_out(key, y, (t0 + t) as u64, flags);
    if n == 0 {
        assert(z =~= y);
    } else {
        lemma_pow2_basic();
        lemma_sizes_descend(t, n, 1);
        lemma_stack_ok_unfold(st, x, t0, key, flags);
        let a = sp_first_size(t, n);
        let l = 1024 * a as int;
        assert(sp_num_chunks(z.len()) == t + 1);
        assert(sp_left_len(z.len()) == l);
        let xr = x.subrange(l, x.len() as int);
        let t1 = (t0 + l / 1024) as u64;
        assert(z.subrange(0, l) =~= x.subrange(0, l));
        assert(z.subrange(l, z.len() as int) =~= xr + y);
        let rest = st.subrange(1, n as int);
        if n == 1 {
            assert(x.subrange(0, l) =~= x);
            assert(xr.len() == 0);
            assert(rest.len() == 0);
            assert(sp_stack_ok(rest, xr, t1, key, flags));
        } else {
            assert(sp_num_chunks(x.len()) == t);
            assert(sp_left_len(x.len()) == l);
        }
        assert(xr.len() / 1024 == t - a);
        assert((t1 + xr.len() / 1024) as u64 == (t0 + t) as u64);
        lemma_fold_partial(rest, xr, y, t1, key, flags);
        assert(st =~= seq![st[0]] + rest);
        lemma_fold_cons(st[0], rest, top, key, flags);
        assert(sp_num_chunks((xr + y).len()) == t - a + 1);
        lemma_subtree_out_cv(xr + y, t1, key, flags);
        assert(z.len() > 1024);
    }
}
