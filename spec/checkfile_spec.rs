// ---------------------------------------------------------------------------------------------
// SPECIFICATION of the b3sum checkfile format (property C13), written from the property text and
// b3sum/what_does_check_do.md as spec functions over `Seq<char>`, plus the lemmas (all PROVED by
// Verus, nothing assumed here) that connect vstd's UTF-8 model of `str` (byte offsets, char
// boundaries) to char indices.
// ---------------------------------------------------------------------------------------------
use vstd::utf8::*;

// ============================ part 1: UTF-8 bridging lemmas =====================================

pub proof fn lemma_blen_empty()
    ensures
        sp_blen(Seq::<char>::empty()) == 0,
{
    reveal_with_fuel(encode_utf8, 1);
}

// one char: 1..4 bytes, exactly 1 iff ASCII
pub proof fn lemma_blen_char(c: char)
    ensures
        1 <= sp_blen(seq![c]) <= 4,
        (c as u32) < 128 <==> sp_blen(seq![c]) == 1,
{
    reveal_with_fuel(encode_utf8, 2);
    let s = seq![c];
    assert(s.drop_first() =~= Seq::<char>::empty());
    assert(encode_utf8(s) =~= encode_scalar(c as u32));
}

pub proof fn lemma_blen_concat(a: Seq<char>, b: Seq<char>)
    ensures
        sp_blen(a + b) == sp_blen(a) + sp_blen(b),
{
    encode_utf8_concat(a, b);
}

// splitting off the first char
pub proof fn lemma_blen_first(s: Seq<char>)
    requires
        s.len() > 0,
    ensures
        sp_blen(s) == sp_blen(seq![s[0]]) + sp_blen(s.drop_first()),
        sp_blen(s) >= 1,
{
    assert(s =~= seq![s[0]] + s.drop_first());
    lemma_blen_concat(seq![s[0]], s.drop_first());
    lemma_blen_char(s[0]);
}

pub proof fn lemma_blen_zero(s: Seq<char>)
    requires
        sp_blen(s) == 0,
    ensures
        s.len() == 0,
{
    if s.len() > 0 {
        lemma_blen_first(s);
    }
}

// every char takes at least one byte
pub proof fn lemma_blen_ge_len(s: Seq<char>)
    ensures
        sp_blen(s) >= s.len(),
    decreases s.len(),
{
    if s.len() == 0 {
        lemma_blen_empty();
    } else {
        lemma_blen_first(s);
        lemma_blen_ge_len(s.drop_first());
    }
}

// ASCII strings: byte length == char count; conversely, equality forces every char to be ASCII
pub open spec fn sp_all_ascii(s: Seq<char>) -> bool {
    forall|i: int| 0 <= i < s.len() ==> (#[trigger] s[i] as u32) < 128
}

pub proof fn lemma_blen_ascii(s: Seq<char>)
    ensures
        sp_all_ascii(s) <==> sp_blen(s) == s.len(),
    decreases s.len(),
{
    if s.len() == 0 {
        lemma_blen_empty();
    } else {
        lemma_blen_first(s);
        lemma_blen_char(s[0]);
        lemma_blen_ascii(s.drop_first());
        lemma_blen_ge_len(s.drop_first());
        let t = s.drop_first();
        if sp_all_ascii(s) {
            assert forall|i: int| 0 <= i < t.len() implies (#[trigger] t[i] as u32) < 128 by {
                assert(t[i] == s[i + 1]);
            }
        }
        if sp_blen(s) == s.len() {
            assert forall|i: int| 0 <= i < s.len() implies (#[trigger] s[i] as u32) < 128 by {
                if i > 0 {
                    assert(s[i] == t[i - 1]);
                }
            }
        }
    }
}

// the encoding determines the chars
pub proof fn lemma_enc_inj(x: Seq<char>, y: Seq<char>)
    requires
        encode_utf8(x) == encode_utf8(y),
    ensures
        x == y,
{
    encode_utf8_decode_utf8(x);
    encode_utf8_decode_utf8(y);
}

// K1: the byte offset of a char prefix is a char boundary
pub proof fn lemma_boundary(a: Seq<char>, b: Seq<char>)
    ensures
        is_char_boundary(encode_utf8(a + b), sp_blen(a) as int),
        sp_blen(a) <= encode_utf8(a + b).len(),
    decreases a.len(),
{
    let s = a + b;
    let bytes = encode_utf8(s);
    lemma_blen_concat(a, b);
    encode_utf8_valid_utf8(s);   // is_char_boundary unfolds only on valid UTF-8
    if a.len() == 0 {
        lemma_blen_empty();
        assert(a =~= Seq::<char>::empty());
    } else {
        encode_utf8_first_scalar(s);
        let l = encode_scalar(s[0] as u32).len();
        assert(s =~= seq![s[0]] + s.drop_first());
        lemma_blen_first(s);
        lemma_blen_first(a);
        assert(s[0] == a[0]);
        lemma_blen_char(s[0]);
        reveal_with_fuel(encode_utf8, 2);
        assert(seq![s[0]].drop_first() =~= Seq::<char>::empty());
        assert(encode_utf8(seq![s[0]]) =~= encode_scalar(s[0] as u32));
        assert(bytes =~= encode_scalar(s[0] as u32) + encode_utf8(s.drop_first()));
        assert(pop_first_scalar(bytes) =~= encode_utf8(s.drop_first()));
        assert(s.drop_first() =~= a.drop_first() + b);
        lemma_boundary(a.drop_first(), b);
        assert(sp_blen(a) - l == sp_blen(a.drop_first()));
    }
}

// K2: in a string whose chars are a + b, offset sp_blen(a) is a boundary and both byte halves are the
// encodings of a and b (so the slices taken there have views a and b)
pub proof fn lemma_str_split(a: Seq<char>, b: Seq<char>)
    ensures
        valid_utf8(encode_utf8(a + b)),
        is_char_boundary(encode_utf8(a + b), 0),
        is_char_boundary(encode_utf8(a + b), encode_utf8(a + b).len() as int),
        is_char_boundary(encode_utf8(a + b), sp_blen(a) as int),
        sp_blen(a) + sp_blen(b) == encode_utf8(a + b).len(),
        encode_utf8(a + b).subrange(0, sp_blen(a) as int) == encode_utf8(a),
        encode_utf8(a + b).subrange(sp_blen(a) as int, encode_utf8(a + b).len() as int) == encode_utf8(b),
{
    let bytes = encode_utf8(a + b);
    lemma_boundary(a, b);
    encode_utf8_concat(a, b);
    encode_utf8_valid_utf8(a + b);
    is_char_boundary_start_end_of_seq(bytes);
    assert(bytes.subrange(0, sp_blen(a) as int) =~= encode_utf8(a));
    assert(bytes.subrange(sp_blen(a) as int, bytes.len() as int) =~= encode_utf8(b));
}

// every string with the bytes of `a` has the chars of `a` (quantified form of lemma_enc_inj, for slices
// that are temporaries in the code)
pub proof fn lemma_view_of_bytes(a: Seq<char>)
    ensures
        forall|x: Seq<char>| #[trigger] encode_utf8(x) == encode_utf8(a) ==> x == a,
{
    assert forall|x: Seq<char>| #[trigger] encode_utf8(x) == encode_utf8(a) implies x == a by {
        lemma_enc_inj(x, a);
    }
}

// ============================ part 2: the checkfile format ======================================

pub open spec fn sp_is_lhex(c: char) -> bool {
    ('0' <= c && c <= '9') || ('a' <= c && c <= 'f')
}

pub open spec fn sp_hexval(c: char) -> int {
    if '0' <= c && c <= '9' {
        c as int - '0' as int
    } else {
        c as int - 'a' as int + 10
    }
}

// the hash field: exactly 64 chars, each a lowercase hex digit
pub open spec fn sp_hex_ok(h: Seq<char>) -> bool {
    h.len() == 64 && forall|i: int| 0 <= i < 64 ==> sp_is_lhex(#[trigger] h[i])
}

pub open spec fn sp_hex_byte(h: Seq<char>, j: int) -> u8 {
    (16 * sp_hexval(h[2 * j]) + sp_hexval(h[2 * j + 1])) as u8
}

pub open spec fn sp_hex_decode(h: Seq<char>) -> Seq<u8> {
    Seq::new(32, |j: int| sp_hex_byte(h, j))
}

// unescaping (what_does_check_do.md): `\\` -> `\`, `\n` -> LF, `\r` -> CR; any other char after a
// backslash, or a backslash at the end, is an error
pub open spec fn sp_unesc_char(e: char) -> Option<char> {
    if e == 'n' {
        Some('\n')
    } else if e == 'r' {
        Some('\r')
    } else if e == '\\' {
        Some('\\')
    } else {
        None
    }
}

pub open spec fn sp_prepend(acc: Seq<char>, r: Option<Seq<char>>) -> Option<Seq<char>> {
    match r {
        Some(x) => Some(acc + x),
        None => None,
    }
}

pub open spec fn sp_unescape(s: Seq<char>) -> Option<Seq<char>>
    decreases s.len(),
{
    if s.len() == 0 {
        Some(Seq::<char>::empty())
    } else if s[0] != '\\' {
        sp_prepend(seq![s[0]], sp_unescape(s.drop_first()))
    } else if s.len() < 2 {
        None
    } else {
        match sp_unesc_char(s[1]) {
            None => None,
            Some(c) => sp_prepend(seq![c], sp_unescape(s.skip(2))),
        }
    }
}

// escaping (the output side): `\` -> `\\`, LF -> `\n`, CR -> `\r`, everything else verbatim
pub open spec fn sp_esc_char(c: char) -> Seq<char> {
    if c == '\\' {
        seq!['\\', '\\']
    } else if c == '\n' {
        seq!['\\', 'n']
    } else if c == '\r' {
        seq!['\\', 'r']
    } else {
        seq![c]
    }
}

pub open spec fn sp_escape(s: Seq<char>) -> Seq<char>
    decreases s.len(),
{
    if s.len() == 0 {
        Seq::<char>::empty()
    } else {
        sp_esc_char(s[0]) + sp_escape(s.drop_first())
    }
}

pub open spec fn sp_needs_escape(s: Seq<char>) -> bool {
    s.contains('\\') || s.contains('\n') || s.contains('\r')
}

// a path that can be checked: not empty, no NUL, no U+FFFD
pub open spec fn sp_path_ok(p: Seq<char>) -> bool {
    p.len() > 0 && !p.contains('\0') && !p.contains('\u{FFFD}')
}

pub open spec fn sp_is_eol(c: char) -> bool {
    c == '\r' || c == '\n'
}

// strip the line terminator(s): trailing CR / LF chars
pub open spec fn sp_trim_eol(s: Seq<char>) -> Seq<char>
    decreases s.len(),
{
    if s.len() > 0 && sp_is_eol(s.last()) {
        sp_trim_eol(s.drop_last())
    } else {
        s
    }
}

pub open spec fn sp_sep() -> Seq<char> {
    seq![' ', ' ']
}

pub open spec fn sp_tag_prefix() -> Seq<char> {
    seq!['B', 'L', 'A', 'K', 'E', '3', ' ', '(']
}

pub open spec fn sp_tag_sep() -> Seq<char> {
    seq![')', ' ', '=', ' ']
}

pub open spec fn sp_is_first_occ(s: Seq<char>, p: Seq<char>, k: int) -> bool {
    sp_occurs_at(s, p, k) && forall|j: int| 0 <= j < k ==> !sp_occurs_at(s, p, j)
}

pub open spec fn sp_is_last_occ(s: Seq<char>, p: Seq<char>, k: int) -> bool {
    sp_occurs_at(s, p, k) && forall|j: int| k < j ==> !sp_occurs_at(s, p, j)
}

// split around the FIRST occurrence of p
pub open spec fn sp_split_first(s: Seq<char>, p: Seq<char>) -> Option<(Seq<char>, Seq<char>)> {
    if sp_has_occ(s, p) {
        let k = choose|k: int| sp_is_first_occ(s, p, k);
        Some((s.take(k), s.skip(k + p.len())))
    } else {
        None
    }
}

// split around the LAST occurrence of p
pub open spec fn sp_split_last(s: Seq<char>, p: Seq<char>) -> Option<(Seq<char>, Seq<char>)> {
    if sp_has_occ(s, p) {
        let k = choose|k: int| sp_is_last_occ(s, p, k);
        Some((s.take(k), s.skip(k + p.len())))
    } else {
        None
    }
}

// "<hash>  <file>": the file may contain "  ", so the FIRST separator counts. Result (hash, file).
pub open spec fn sp_split_untagged(body: Seq<char>) -> Option<(Seq<char>, Seq<char>)> {
    sp_split_first(body, sp_sep())
}

// "BLAKE3 (<file>) = <hash>": the file may contain ") = ", so the LAST separator counts. Result (file, hash).
pub open spec fn sp_split_tagged(body: Seq<char>) -> Option<(Seq<char>, Seq<char>)> {
    if sp_occurs_at(body, sp_tag_prefix(), 0) {
        sp_split_last(body.skip(8), sp_tag_sep())
    } else {
        None
    }
}

// The two output forms. A line that has the --tag shape is a --tag line (its path may contain "  ");
// anything else is tried as "<hash>  <file>". Result (hash field, file field).
pub open spec fn sp_split_line(body: Seq<char>) -> Option<(Seq<char>, Seq<char>)> {
    match sp_split_tagged(body) {
        Some((f, h)) => Some((h, f)),
        None => sp_split_untagged(body),
    }
}

pub struct SpParsed {
    pub hash: Seq<u8>,
    pub path: Seq<char>,
    pub file_string: Seq<char>,
    pub is_escaped: bool,
}

// what `--check` makes of one line of text
pub open spec fn sp_parse(line: Seq<char>) -> Option<SpParsed> {
    let l = sp_trim_eol(line);
    if l.len() == 0 {
        None
    } else {
        let esc = l[0] == '\\';
        let body = if esc {
            l.skip(1)
        } else {
            l
        };
        match sp_split_line(body) {
            None => None,
            Some((hash_hex, file_str)) => {
                if !sp_hex_ok(hash_hex) {
                    None
                } else {
                    let po = if esc {
                        sp_unescape(file_str)
                    } else {
                        Some(file_str)
                    };
                    match po {
                        None => None,
                        Some(p) => if sp_path_ok(p) {
                            Some(
                                SpParsed {
                                    hash: sp_hex_decode(hash_hex),
                                    path: p,
                                    file_string: file_str,
                                    is_escaped: esc,
                                },
                            )
                        } else {
                            None
                        },
                    }
                }
            },
        }
    }
}

// ---- lemmas used by the code proofs --------------------------------------------------------------

// a run of non-backslash chars is copied verbatim
pub proof fn lemma_unescape_plain_prefix(s: Seq<char>, k: int)
    requires
        0 <= k <= s.len(),
        forall|j: int| 0 <= j < k ==> s[j] != '\\',
    ensures
        sp_unescape(s) == sp_prepend(s.take(k), sp_unescape(s.skip(k))),
    decreases k,
{
    if k == 0 {
        assert(s.skip(0) =~= s);
        assert(s.take(0) =~= Seq::<char>::empty());
        match sp_unescape(s) {
            Some(x) => {
                assert(Seq::<char>::empty() + x =~= x);
            },
            None => {},
        }
    } else {
        let t = s.drop_first();
        assert forall|j: int| 0 <= j < k - 1 implies t[j] != '\\' by {
            assert(t[j] == s[j + 1]);
        }
        lemma_unescape_plain_prefix(t, k - 1);
        assert(t.skip(k - 1) =~= s.skip(k));
        assert(seq![s[0]] + t.take(k - 1) =~= s.take(k));
        match sp_unescape(s.skip(k)) {
            Some(x) => {
                assert(seq![s[0]] + (t.take(k - 1) + x) =~= s.take(k) + x);
            },
            None => {},
        }
    }
}

// the result of trim_end_matches(['\r', '\n']) as characterised by its contract is sp_trim_eol
pub proof fn lemma_trim_eol_unique(s: Seq<char>, r: Seq<char>)
    requires
        r.len() <= s.len(),
        r == s.take(r.len() as int),
        forall|j: int| r.len() <= j < s.len() ==> sp_is_eol(#[trigger] s[j]),
        r.len() > 0 ==> !sp_is_eol(r[r.len() - 1]),
    ensures
        sp_trim_eol(s) == r,
    decreases s.len() - r.len(),
{
    if r.len() == s.len() {
        assert(r =~= s);
    } else {
        assert(sp_is_eol(s[s.len() - 1]));
        let t = s.drop_last();
        assert(r =~= t.take(r.len() as int));
        lemma_trim_eol_unique(t, r);
    }
}

// split_once / rsplit_once as characterised by their contracts are sp_split_first / sp_split_last
pub proof fn lemma_split_first_unique(s: Seq<char>, p: Seq<char>, a: Seq<char>, b: Seq<char>)
    requires
        sp_is_split_first(s, p, a, b),
    ensures
        sp_split_first(s, p) == Some((a, b)),
{
    let k0 = a.len() as int;
    assert(s.subrange(k0, k0 + p.len()) =~= p);
    assert(sp_is_first_occ(s, p, k0));
    let k = choose|k: int| sp_is_first_occ(s, p, k);
    assert(k == k0) by {
        if k < k0 {
            assert(!sp_occurs_at(s, p, k));
        }
        if k0 < k {
            assert(!sp_occurs_at(s, p, k0));
        }
    }
    assert(s.take(k0) =~= a);
    assert(s.skip(k0 + p.len()) =~= b);
}

pub proof fn lemma_split_last_unique(s: Seq<char>, p: Seq<char>, a: Seq<char>, b: Seq<char>)
    requires
        sp_is_split_last(s, p, a, b),
    ensures
        sp_split_last(s, p) == Some((a, b)),
{
    let k0 = a.len() as int;
    assert(s.subrange(k0, k0 + p.len()) =~= p);
    assert(sp_is_last_occ(s, p, k0));
    let k = choose|k: int| sp_is_last_occ(s, p, k);
    assert(k == k0) by {
        if k < k0 {
            assert(!sp_occurs_at(s, p, k0));
        }
        if k0 < k {
            assert(!sp_occurs_at(s, p, k));
        }
    }
    assert(s.take(k0) =~= a);
    assert(s.skip(k0 + p.len()) =~= b);
}

// quantified forms (the code returns the wrapper's result as its tail expression)
pub proof fn lemma_split_first_all(s: Seq<char>, p: Seq<char>)
    ensures
        forall|a: Seq<char>, b: Seq<char>| #[trigger]
            sp_is_split_first(s, p, a, b) ==> sp_split_first(s, p) == Some((a, b)),
        !sp_has_occ(s, p) ==> sp_split_first(s, p) is None,
{
    assert forall|a: Seq<char>, b: Seq<char>| #[trigger] sp_is_split_first(s, p, a, b) implies sp_split_first(s, p)
        == Some((a, b)) by {
        lemma_split_first_unique(s, p, a, b);
    }
}

pub proof fn lemma_split_last_all(s: Seq<char>, p: Seq<char>)
    ensures
        forall|a: Seq<char>, b: Seq<char>| #[trigger]
            sp_is_split_last(s, p, a, b) ==> sp_split_last(s, p) == Some((a, b)),
        !sp_has_occ(s, p) ==> sp_split_last(s, p) is None,
{
    assert forall|a: Seq<char>, b: Seq<char>| #[trigger] sp_is_split_last(s, p, a, b) implies sp_split_last(s, p)
        == Some((a, b)) by {
        lemma_split_last_unique(s, p, a, b);
    }
}

// the literals of the format
pub proof fn lemma_literals()
    ensures
        "  "@ == sp_sep(),
        "BLAKE3 ("@ == sp_tag_prefix(),
        ") = "@ == sp_tag_sep(),
        sp_blen(sp_tag_prefix()) == 8,
        "\n"@ == seq!['\n'],
        "\r"@ == seq!['\r'],
        "\\"@ == seq!['\\'],
{
    reveal_strlit("  ");
    reveal_strlit("BLAKE3 (");
    reveal_strlit(") = ");
    reveal_strlit("\n");
    reveal_strlit("\r");
    reveal_strlit("\\");
    assert("  "@ =~= sp_sep());
    assert("BLAKE3 ("@ =~= sp_tag_prefix());
    assert(") = "@ =~= sp_tag_sep());
    assert("\n"@ =~= seq!['\n']);
    assert("\r"@ =~= seq!['\r']);
    assert("\\"@ =~= seq!['\\']);
    assert(sp_all_ascii(sp_tag_prefix()));
    lemma_blen_ascii(sp_tag_prefix());
}

// a hash field of 64 BYTES whose first 64 chars are lowercase hex has exactly 64 chars
pub proof fn lemma_hex_len(h: Seq<char>)
    requires
        sp_blen(h) == 64,
        h.len() >= 64,
        forall|i: int| 0 <= i < 64 ==> sp_is_lhex(#[trigger] h[i]),
    ensures
        h.len() == 64,
{
    let a = h.take(64);
    let b = h.skip(64);
    assert(h =~= a + b);
    lemma_blen_concat(a, b);
    assert(sp_all_ascii(a)) by {
        assert forall|i: int| 0 <= i < a.len() implies (#[trigger] a[i] as u32) < 128 by {
            assert(a[i] == h[i]);
            assert(sp_is_lhex(h[i]));
        }
    }
    lemma_blen_ascii(a);
    lemma_blen_zero(b);
}

// a well-formed hash field is 64 bytes long
pub proof fn lemma_hex_ok_blen(h: Seq<char>)
    requires
        sp_hex_ok(h),
    ensures
        sp_blen(h) == 64,
{
    assert(sp_all_ascii(h)) by {
        assert forall|i: int| 0 <= i < h.len() implies (#[trigger] h[i] as u32) < 128 by {
            assert(sp_is_lhex(h[i]));
        }
    }
    lemma_blen_ascii(h);
}

// ---- the output side: filepath_to_string's three chained `replace` calls are sp_escape -----------------

pub proof fn lemma_replace_concat(a: Seq<char>, b: Seq<char>, c: char, to: Seq<char>)
    ensures
        sp_replace_char(a + b, c, to) == sp_replace_char(a, c, to) + sp_replace_char(b, c, to),
    decreases a.len(),
{
    if a.len() == 0 {
        assert(a + b =~= b);
        assert(sp_replace_char(a, c, to) + sp_replace_char(b, c, to) =~= sp_replace_char(b, c, to));
    } else {
        assert((a + b).drop_first() =~= a.drop_first() + b);
        lemma_replace_concat(a.drop_first(), b, c, to);
        let h = if a[0] == c {
            to
        } else {
            seq![a[0]]
        };
        assert(h + (sp_replace_char(a.drop_first(), c, to) + sp_replace_char(b, c, to)) =~= (h + sp_replace_char(
            a.drop_first(),
            c,
            to,
        )) + sp_replace_char(b, c, to));
    }
}

pub open spec fn sp_replace3(s: Seq<char>) -> Seq<char> {
    sp_replace_char(
        sp_replace_char(sp_replace_char(s, '\\', seq!['\\', '\\']), '\n', seq!['\\', 'n']),
        '\r',
        seq!['\\', 'r'],
    )
}

pub proof fn lemma_replace_one(x: char, c: char, to: Seq<char>)
    ensures
        sp_replace_char(seq![x], c, to) == (if x == c {
            to
        } else {
            seq![x]
        }),
{
    reveal_with_fuel(sp_replace_char, 2);
    let s = seq![x];
    assert(s.drop_first() =~= Seq::<char>::empty());
    assert(sp_replace_char(s, c, to) =~= (if x == c {
        to
    } else {
        seq![x]
    }));
}

pub proof fn lemma_replace_two(x: char, y: char, c: char, to: Seq<char>)
    requires
        x != c,
        y != c,
    ensures
        sp_replace_char(seq![x, y], c, to) == seq![x, y],
{
    let s = seq![x, y];
    assert(s =~= seq![x] + seq![y]);
    lemma_replace_concat(seq![x], seq![y], c, to);
    lemma_replace_one(x, c, to);
    lemma_replace_one(y, c, to);
}

pub proof fn lemma_replace3_char(x: char)
    ensures
        sp_replace3(seq![x]) == sp_esc_char(x),
{
    let bb = seq!['\\', '\\'];
    let bn = seq!['\\', 'n'];
    let br = seq!['\\', 'r'];
    lemma_replace_one(x, '\\', bb);
    lemma_replace_one(x, '\n', bn);
    lemma_replace_one(x, '\r', br);
    lemma_replace_two('\\', '\\', '\n', bn);
    lemma_replace_two('\\', '\\', '\r', br);
    lemma_replace_two('\\', 'n', '\r', br);
}

pub proof fn lemma_replace3_concat(a: Seq<char>, b: Seq<char>)
    ensures
        sp_replace3(a + b) == sp_replace3(a) + sp_replace3(b),
{
    let bb = seq!['\\', '\\'];
    let bn = seq!['\\', 'n'];
    let br = seq!['\\', 'r'];
    lemma_replace_concat(a, b, '\\', bb);
    let a1 = sp_replace_char(a, '\\', bb);
    let b1 = sp_replace_char(b, '\\', bb);
    lemma_replace_concat(a1, b1, '\n', bn);
    let a2 = sp_replace_char(a1, '\n', bn);
    let b2 = sp_replace_char(b1, '\n', bn);
    lemma_replace_concat(a2, b2, '\r', br);
}

pub proof fn lemma_escape_is_replace3(s: Seq<char>)
    ensures
        sp_replace3(s) == sp_escape(s),
    decreases s.len(),
{
    if s.len() == 0 {
        reveal_with_fuel(sp_replace_char, 1);
    } else {
        assert(s =~= seq![s[0]] + s.drop_first());
        lemma_replace3_concat(seq![s[0]], s.drop_first());
        lemma_replace3_char(s[0]);
        lemma_escape_is_replace3(s.drop_first());
    }
}

// what b3sum prints for a path: the (possibly escaped) file field and the flag for the leading backslash
pub open spec fn sp_file_field(p: Seq<char>) -> Seq<char> {
    if sp_needs_escape(p) {
        sp_escape(p)
    } else {
        p
    }
}

// ============================ part 3: theorems about the format (clauses of C13) ==================

// a first / last occurrence exists whenever an occurrence exists (so the `choose`s above are meaningful)
pub proof fn lemma_first_occ_exists(s: Seq<char>, p: Seq<char>, k: int)
    requires
        sp_occurs_at(s, p, k),
    ensures
        exists|k0: int| sp_is_first_occ(s, p, k0),
    decreases k,
{
    if exists|j: int| 0 <= j < k && sp_occurs_at(s, p, j) {
        let j = choose|j: int| 0 <= j < k && sp_occurs_at(s, p, j);
        lemma_first_occ_exists(s, p, j);
    } else {
        assert(sp_is_first_occ(s, p, k));
    }
}

pub proof fn lemma_last_occ_exists(s: Seq<char>, p: Seq<char>, k: int)
    requires
        sp_occurs_at(s, p, k),
    ensures
        exists|k0: int| sp_is_last_occ(s, p, k0),
    decreases s.len() - k,
{
    if exists|j: int| k < j && sp_occurs_at(s, p, j) {
        let j = choose|j: int| k < j && sp_occurs_at(s, p, j);
        lemma_last_occ_exists(s, p, j);
    } else {
        assert(sp_is_last_occ(s, p, k));
    }
}

pub proof fn lemma_split_first_shape(s: Seq<char>, p: Seq<char>)
    ensures
        sp_split_first(s, p) matches Some((a, b)) ==> s == a + p + b,
{
    if sp_has_occ(s, p) {
        let k1 = choose|k: int| sp_occurs_at(s, p, k);
        lemma_first_occ_exists(s, p, k1);
        let k = choose|k: int| sp_is_first_occ(s, p, k);
        assert(s =~= s.take(k) + p + s.skip(k + p.len()));
    }
}

pub proof fn lemma_split_last_shape(s: Seq<char>, p: Seq<char>)
    ensures
        sp_split_last(s, p) matches Some((a, b)) ==> s == a + p + b,
{
    if sp_has_occ(s, p) {
        let k1 = choose|k: int| sp_occurs_at(s, p, k);
        lemma_last_occ_exists(s, p, k1);
        let k = choose|k: int| sp_is_last_occ(s, p, k);
        assert(s =~= s.take(k) + p + s.skip(k + p.len()));
    }
}

// the two line shapes
pub open spec fn sp_line_shape(body: Seq<char>, hx: Seq<char>, f: Seq<char>) -> bool {
    body == hx + sp_sep() + f || body == sp_tag_prefix() + f + sp_tag_sep() + hx
}

// C13, "for arbitrary text": a successful parse means the line (minus CR/LF terminators and the escape
// flag) has one of the two shapes with a hash field of exactly 64 lowercase hex digits, the hash is
// their decoding, the path is the documented unescaping of the file field (or the field itself), and
// the path is non-empty without NUL / U+FFFD. Contrapositive: an empty line, a wrong-length, non-hex or
// non-ASCII hash field, an invalid or dangling escape, an empty path, NUL or U+FFFD give an error.
pub proof fn lemma_parse_ok_shape(line: Seq<char>)
    ensures
        sp_trim_eol(line).len() == 0 ==> sp_parse(line) is None,
        sp_parse(line) matches Some(p) ==> {
            let l = sp_trim_eol(line);
            let body = if p.is_escaped {
                l.skip(1)
            } else {
                l
            };
            &&& l.len() > 0
            &&& p.is_escaped == (l[0] == '\\')
            &&& exists|hx: Seq<char>| #[trigger]
                sp_hex_ok(hx) && p.hash == sp_hex_decode(hx) && sp_line_shape(body, hx, p.file_string)
            &&& sp_path_ok(p.path)
            &&& (if p.is_escaped {
                sp_unescape(p.file_string) == Some(p.path)
            } else {
                p.path == p.file_string
            })
        },
{
    let l = sp_trim_eol(line);
    if l.len() > 0 {
        let esc = l[0] == '\\';
        let body = if esc {
            l.skip(1)
        } else {
            l
        };
        match sp_split_tagged(body) {
            Some((f, h)) => {
                lemma_split_last_shape(body.skip(8), sp_tag_sep());
                assert(body =~= sp_tag_prefix() + body.skip(8));
                assert(body =~= sp_tag_prefix() + f + sp_tag_sep() + h);
                if sp_parse(line) is Some {
                    assert(sp_hex_ok(h) && sp_line_shape(body, h, f));
                }
            },
            None => {
                lemma_split_first_shape(body, sp_sep());
                match sp_split_untagged(body) {
                    Some((h, f)) => {
                        if sp_parse(line) is Some {
                            assert(sp_hex_ok(h) && sp_line_shape(body, h, f));
                        }
                    },
                    None => {},
                }
            },
        }
    }
}

// a well-formed hash field is ASCII
pub proof fn lemma_hex_ok_ascii(h: Seq<char>)
    requires
        sp_hex_ok(h),
    ensures
        sp_all_ascii(h),
        h.len() == 64,
{
    assert forall|i: int| 0 <= i < h.len() implies (#[trigger] h[i] as u32) < 128 by {
        assert(sp_is_lhex(h[i]));
    }
}

// ---- the lines b3sum prints -----------------------------------------------------------------------

pub open spec fn sp_hex_digit(v: int) -> char {
    if v < 10 {
        ((48 + v) as u8) as char
    } else {
        ((87 + v) as u8) as char
    }
}

// lowercase hex of a byte string (what `Hash::to_hex` / the XOF hex output prints)
pub open spec fn sp_hex_encode(h: Seq<u8>) -> Seq<char> {
    Seq::new(
        2 * h.len(),
        |i: int|
            sp_hex_digit(
                if i % 2 == 0 {
                    h[i / 2] as int / 16
                } else {
                    h[i / 2] as int % 16
                },
            ),
    )
}

pub open spec fn sp_eol(crlf: bool) -> Seq<char> {
    if crlf {
        seq!['\r', '\n']
    } else {
        seq!['\n']
    }
}

pub open spec fn sp_line_body(p: Seq<char>, h: Seq<u8>, tag: bool) -> Seq<char> {
    if tag {
        sp_tag_prefix() + sp_file_field(p) + sp_tag_sep() + sp_hex_encode(h)
    } else {
        sp_hex_encode(h) + sp_sep() + sp_file_field(p)
    }
}

// hash_one_input: `\` if escaped, then "<hex>  <file>" or "BLAKE3 (<file>) = <hex>", then the terminator
pub open spec fn sp_line(p: Seq<char>, h: Seq<u8>, tag: bool, crlf: bool) -> Seq<char> {
    (if sp_needs_escape(p) {
        seq!['\\']
    } else {
        Seq::<char>::empty()
    }) + sp_line_body(p, h, tag) + sp_eol(crlf)
}

pub proof fn lemma_hex_digit(v: int)
    requires
        0 <= v < 16,
    ensures
        sp_is_lhex(sp_hex_digit(v)),
        sp_hexval(sp_hex_digit(v)) == v,
        sp_hex_digit(v) != ' ',
        sp_hex_digit(v) != ')',
        sp_hex_digit(v) != 'B',
        sp_hex_digit(v) != '\\',
        !sp_is_eol(sp_hex_digit(v)),
{
}

pub proof fn lemma_hex_roundtrip(h: Seq<u8>)
    requires
        h.len() == 32,
    ensures
        sp_hex_ok(sp_hex_encode(h)),
        sp_hex_decode(sp_hex_encode(h)) == h,
        forall|i: int|
            0 <= i < 64 ==> {
                let c = #[trigger] sp_hex_encode(h)[i];
                c != ' ' && c != ')' && c != 'B' && c != '\\' && !sp_is_eol(c)
            },
{
    let e = sp_hex_encode(h);
    assert forall|i: int| 0 <= i < 64 implies {
        let c = #[trigger] e[i];
        sp_is_lhex(c) && c != ' ' && c != ')' && c != 'B' && c != '\\' && !sp_is_eol(c)
    } by {
        let b = h[i / 2] as int;
        lemma_hex_digit(b / 16);
        lemma_hex_digit(b % 16);
    }
    assert forall|j: int| 0 <= j < 32 implies #[trigger] sp_hex_decode(e)[j] == h[j] by {
        let b = h[j] as int;
        lemma_hex_digit(b / 16);
        lemma_hex_digit(b % 16);
        assert((2 * j) / 2 == j && (2 * j) % 2 == 0);
        assert((2 * j + 1) / 2 == j && (2 * j + 1) % 2 == 1);
        assert(e[2 * j] == sp_hex_digit(b / 16));
        assert(e[2 * j + 1] == sp_hex_digit(b % 16));
        assert(16 * (b / 16) + b % 16 == b);
    }
    assert(sp_hex_decode(e) =~= h);
}

pub proof fn lemma_trim_eol_append(x: Seq<char>, crlf: bool)
    requires
        x.len() > 0,
        !sp_is_eol(x.last()),
    ensures
        sp_trim_eol(x + sp_eol(crlf)) == x,
{
    let s = x + sp_eol(crlf);
    assert(x =~= s.take(x.len() as int));
    lemma_trim_eol_unique(s, x);
}

// escaping removes every CR / LF, never yields an empty field for a non-empty path, and is undone by unescaping
pub proof fn lemma_escape_props(p: Seq<char>)
    ensures
        forall|i: int| 0 <= i < sp_escape(p).len() ==> !sp_is_eol(#[trigger] sp_escape(p)[i]),
        sp_escape(p).len() >= p.len(),
        sp_unescape(sp_escape(p)) == Some(p),
    decreases p.len(),
{
    if p.len() == 0 {
        assert(Some(p) == Some(Seq::<char>::empty())) by {
            assert(p =~= Seq::<char>::empty());
        }
    } else {
        let t = p.drop_first();
        lemma_escape_props(t);
        let e = sp_escape(p);
        let et = sp_escape(t);
        let c = p[0];
        assert(e == sp_esc_char(c) + et);
        assert(p =~= seq![c] + t);
        if c == '\\' || c == '\n' || c == '\r' {
            assert(e.skip(2) =~= et);
            assert(sp_unesc_char(e[1]) == Some(c));
        } else {
            assert(e.drop_first() =~= et);
        }
        assert forall|i: int| 0 <= i < e.len() implies !sp_is_eol(#[trigger] e[i]) by {
            if i >= sp_esc_char(c).len() {
                assert(e[i] == et[i - sp_esc_char(c).len()]);
            }
        }
    }
}

// the split step of the round trip, --tag form: "BLAKE3 (" + file + ") = " + hex splits into (hex, file)
pub proof fn lemma_split_line_tag(fs: Seq<char>, hx: Seq<char>)
    requires
        hx.len() == 64,
        forall|i: int| 0 <= i < 64 ==> (#[trigger] hx[i]) != ')',
    ensures
        sp_split_line(sp_tag_prefix() + fs + sp_tag_sep() + hx) == Some((hx, fs)),
{
    let body = sp_tag_prefix() + fs + sp_tag_sep() + hx;
    let rest = fs + sp_tag_sep() + hx;
    assert(body =~= sp_tag_prefix() + rest);
    assert(body.skip(8) =~= rest);
    assert(body.subrange(0, 8) =~= sp_tag_prefix());
    assert(sp_occurs_at(body, sp_tag_prefix(), 0));
    assert forall|j: int| fs.len() < j implies !sp_occurs_at(rest, sp_tag_sep(), j) by {
        if sp_occurs_at(rest, sp_tag_sep(), j) {
            // rest[j] would have to be ')' but lies in " = <hex>"
            assert(rest.subrange(j, j + 4)[0] == ')');
            assert(rest[j] == ')');
            if j < fs.len() + 4 {
                assert(rest[j] == sp_tag_sep()[j - fs.len()]);
            } else {
                assert(rest[j] == hx[j - fs.len() - 4]);
            }
        }
    }
    lemma_split_last_unique(rest, sp_tag_sep(), fs, hx);
}

// the split step of the round trip, plain form: hex + "  " + file splits into (hex, file)
pub proof fn lemma_split_line_plain(fs: Seq<char>, hx: Seq<char>)
    requires
        hx.len() == 64,
        forall|i: int| 0 <= i < 64 ==> (#[trigger] hx[i]) != ' ' && hx[i] != 'B',
    ensures
        sp_split_line(hx + sp_sep() + fs) == Some((hx, fs)),
{
    let body = hx + sp_sep() + fs;
    assert(body[0] == hx[0]);
    assert(!sp_occurs_at(body, sp_tag_prefix(), 0)) by {
        if sp_occurs_at(body, sp_tag_prefix(), 0) {
            assert(body.subrange(0, 8)[0] == 'B');
        }
    }
    assert(sp_split_tagged(body) is None);
    assert forall|j: int| 0 <= j < 64 implies !sp_occurs_at(body, sp_sep(), j) by {
        if sp_occurs_at(body, sp_sep(), j) {
            assert(body.subrange(j, j + 2)[0] == ' ');
            assert(body[j] == hx[j]);
        }
    }
    lemma_split_first_unique(body, sp_sep(), hx, fs);
}

// C13, round trip: every line b3sum prints for a path that is valid Unicode without U+FFFD / NUL (and not
// empty) -- plain or --tag form, escaped or not, LF or CRLF terminated -- parses back to exactly that
// path and hash.
pub proof fn lemma_roundtrip(p: Seq<char>, h: Seq<u8>, tag: bool, crlf: bool)
    requires
        sp_path_ok(p),
        h.len() == 32,
    ensures
        sp_parse(sp_line(p, h, tag, crlf)) == Some(
            SpParsed { hash: h, path: p, file_string: sp_file_field(p), is_escaped: sp_needs_escape(p) },
        ),
{
    let esc = sp_needs_escape(p);
    let fs = sp_file_field(p);
    let hx = sp_hex_encode(h);
    let body = sp_line_body(p, h, tag);
    let pre = if esc {
        seq!['\\']
    } else {
        Seq::<char>::empty()
    };
    let x = pre + body;
    lemma_hex_roundtrip(h);
    lemma_escape_props(p);
    assert(hx.len() == 64);
    // the file field: non-empty, free of CR / LF; not escaped => free of backslashes too
    assert(fs.len() > 0);
    assert forall|i: int| 0 <= i < fs.len() implies !sp_is_eol(#[trigger] fs[i]) by {
        if !esc {
            assert(!p.contains('\n') && !p.contains('\r'));
        }
    }
    // 1. the terminator is stripped
    assert(body.len() > 0 && !sp_is_eol(body.last())) by {
        if tag {
            assert(body.last() == hx[63]);
        } else {
            assert(body.last() == fs[fs.len() - 1]);
        }
    }
    assert(x.last() == body.last());
    lemma_trim_eol_append(x, crlf);
    assert(sp_line(p, h, tag, crlf) == x + sp_eol(crlf));
    // 2. the escape flag
    assert(x.len() > 0);
    assert(body[0] != '\\') by {
        if tag {
            assert(body[0] == 'B');
        } else {
            assert(body[0] == hx[0]);
        }
    }
    assert((x[0] == '\\') == esc);
    assert((if esc {
        x.skip(1)
    } else {
        x
    }) =~= body);
    // 3. the split
    if tag {
        lemma_split_line_tag(fs, hx);
    } else {
        lemma_split_line_plain(fs, hx);
    }
    assert(sp_split_line(body) == Some((hx, fs)));
    // 4. unescaping and the path checks
    if esc {
        assert(sp_unescape(fs) == Some(p));
    }
}

// C13, "no two different paths ever yield lines that parse to the same path"
pub proof fn lemma_no_confusion(
    p1: Seq<char>,
    h1: Seq<u8>,
    t1: bool,
    c1: bool,
    p2: Seq<char>,
    h2: Seq<u8>,
    t2: bool,
    c2: bool,
)
    requires
        sp_path_ok(p1),
        sp_path_ok(p2),
        h1.len() == 32,
        h2.len() == 32,
        sp_parse(sp_line(p1, h1, t1, c1))->Some_0.path == sp_parse(sp_line(p2, h2, t2, c2))->Some_0.path,
    ensures
        p1 == p2,
{
    lemma_roundtrip(p1, h1, t1, c1);
    lemma_roundtrip(p2, h2, t2, c2);
}

// ============================ part 4: the printing side (hash_one_input, write_hex_output) =========

// ---- hex output of the XOF stream (write_hex_output) ----
pub proof fn lemma_hex_encode_ascii(b: Seq<u8>)
    ensures
        sp_all_ascii(sp_hex_encode(b)),
        sp_hex_encode(b).len() == 2 * b.len(),
        sp_blen(sp_hex_encode(b)) == 2 * b.len(),
{
    let e = sp_hex_encode(b);
    assert forall|i: int| 0 <= i < e.len() implies (#[trigger] e[i] as u32) < 128 by {
        let v = b[i / 2] as int;
        lemma_hex_digit(v / 16);
        lemma_hex_digit(v % 16);
    }
    lemma_blen_ascii(e);
}

pub proof fn lemma_hex_encode_concat(a: Seq<u8>, b: Seq<u8>)
    ensures
        sp_hex_encode(a + b) == sp_hex_encode(a) + sp_hex_encode(b),
{
    let l = sp_hex_encode(a + b);
    let r = sp_hex_encode(a) + sp_hex_encode(b);
    assert(l.len() == r.len());
    assert forall|i: int| 0 <= i < l.len() implies l[i] == r[i] by {
        if i < 2 * a.len() {
            assert((a + b)[i / 2] == a[i / 2]);
        } else {
            let k = i - 2 * a.len();
            assert(i / 2 == a.len() + k / 2 && i % 2 == k % 2);
            assert((a + b)[i / 2] == b[k / 2]);
        }
    }
    assert(l =~= r);
}

pub proof fn lemma_hex_encode_take(b: Seq<u8>, t: int)
    requires
        0 <= t <= b.len(),
    ensures
        sp_hex_encode(b).take(2 * t) == sp_hex_encode(b.take(t)),
{
    assert(b =~= b.take(t) + b.skip(t));
    lemma_hex_encode_concat(b.take(t), b.skip(t));
    assert(sp_hex_encode(b).take(2 * t) =~= sp_hex_encode(b.take(t)));
}

pub proof fn lemma_xof_bytes_split(id: int, from: int, a: int, b: int)
    requires
        0 <= a,
        0 <= b,
    ensures
        sp_xof_bytes(id, from, a) + sp_xof_bytes(id, from + a, b) == sp_xof_bytes(id, from, a + b),
        sp_xof_bytes(id, from, a + b).take(a) == sp_xof_bytes(id, from, a),
{
    assert(sp_xof_bytes(id, from, a) + sp_xof_bytes(id, from + a, b) =~= sp_xof_bytes(id, from, a + b));
    assert(sp_xof_bytes(id, from, a + b).take(a) =~= sp_xof_bytes(id, from, a));
}

// one iteration of write_hex_output: the first 2*t BYTES of the hex string of a 64-byte block are a char
// prefix (the string is ASCII), namely the hex of the block's first t bytes
pub proof fn lemma_hex_prefix(block: Seq<u8>, t: int)
    requires
        0 <= t <= block.len(),
    ensures
        ({
            let e = sp_hex_encode(block);
            &&& is_char_boundary(encode_utf8(e), 0)
            &&& is_char_boundary(encode_utf8(e), 2 * t)
            &&& 2 * t <= encode_utf8(e).len()
            &&& encode_utf8(e).subrange(0, 2 * t) == encode_utf8(sp_hex_encode(block.take(t)))
        }),
{
    let e = sp_hex_encode(block);
    let a = e.take(2 * t);
    let b = e.skip(2 * t);
    lemma_hex_encode_ascii(block);
    lemma_hex_encode_take(block, t);
    lemma_hex_encode_ascii(block.take(t));
    assert(e =~= a + b);
    lemma_str_split(a, b);
}

pub proof fn lemma_print_literals()
    ensures
        "\n"@ == sp_eol(false),
        ""@ == Seq::<char>::empty(),
{
    reveal_strlit("\n");
    reveal_strlit("");
    assert("\n"@ =~= sp_eol(false));
    assert(""@ =~= Seq::<char>::empty());
}

// what hash_one_input wrote, piece by piece, is sp_line (Seq associativity only)
pub proof fn lemma_line_assembly(out0: Seq<char>, p: Seq<char>, h: Seq<u8>, tag: bool, out: Seq<char>)
    requires
        ({
            let m = if sp_needs_escape(p) { out0 + seq!['\\'] } else { out0 };
            let f = sp_file_field(p);
            let x = sp_hex_encode(h);
            if tag {
                out == m + sp_tag_prefix() + f + sp_tag_sep() + x + sp_eol(false)
            } else {
                out == m + x + sp_sep() + f + sp_eol(false)
            }
        }),
    ensures
        out == out0 + sp_line(p, h, tag, false),
{
    assert(out =~= out0 + sp_line(p, h, tag, false));
}

// C13 at the printing function: `out` is `out0` followed by exactly the line of the format for (path, hash, form),
// LF terminated; and for a default-length hash and a checkable path that line parses back to the same path and hash
pub open spec fn sp_prints_line(out0: Seq<char>, out: Seq<char>, p: Seq<char>, h: Seq<u8>, tag: bool) -> bool {
    &&& out == out0 + sp_line(p, h, tag, false)
    &&& (h.len() == 32 && sp_path_ok(p) ==> sp_parse(sp_line(p, h, tag, false)) == Some(
        SpParsed { hash: h, path: p, file_string: sp_file_field(p), is_escaped: sp_needs_escape(p) },
    ))
}

// --no-names: only the hex digits and the terminator
pub open spec fn sp_prints_hash_only(out0: Seq<char>, out: Seq<char>, h: Seq<u8>) -> bool {
    out == out0 + sp_hex_encode(h) + sp_eol(false)
}
