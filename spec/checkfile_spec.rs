// ---------------------------------------------------------------------------------------------
// SPECIFICATION of the b3sum checkfile format (property C13), written from the property text and
// b3sum/what_does_check_do.md as spec functions over `Seq<char>`, plus the lemmas (all PROVED by
// Verus, nothing assumed here) that connect vstd's UTF-8 model of `str` (byte offsets, char
// boundaries) to char indices.
// ---------------------------------------------------------------------------------------------
use vstd::utf8::*;

// ============================ part 1: UTF-8 bridging lemmas =====================================

pub proof fn lemma_blen_empty()
    ensures
        sp_blen(Seq::<char>::empty()) == 0,
{
    reveal_with_fuel(encode_utf8, 1);
}

// one char: 1..4 bytes, exactly 1 iff ASCII
pub proof fn lemma_blen_char(c: char)
    ensures
        1 <= sp_blen(seq![c]) <= 4,
        (c as u32) < 128 <==> sp_blen(seq![c]) == 1,
{
    reveal_with_fuel(encode_utf8, 2);
    let s = seq![c];
    assert(s.drop_first() =~= Seq::<char>::empty());
    assert(encode_utf8(s) =~= encode_scalar(c as u32));
}

pub proof fn lemma_blen_concat(a: Seq<char>, b: Seq<char>)
    ensures
        sp_blen(a + b) == sp_blen(a) + sp_blen(b),
{
    encode_utf8_concat(a, b);
}

// splitting off the first char
pub proof fn lemma_blen_first(s: Seq<char>)
    requires
        s.len() > 0,
    ensures
        sp_blen(s) == sp_blen(seq![s[0]]) + sp_blen(s.drop_first()),
        sp_blen(s) >= 1,
{
    assert(s =~= seq![s[0]] + s.drop_first());
    lemma_blen_concat(seq![s[0]], s.drop_first());
    lemma_blen_char(s[0]);
}

pub proof fn lemma_blen_zero(s: Seq<char>)
    requires
        sp_blen(s) == 0,
    ensures
        s.len() == 0,
{
    if s.len() > 0 {
        lemma_blen_first(s);
    }
}

// every char takes at least one byte
pub proof fn lemma_blen_ge_len(s: Seq<char>)
    ensures
        sp_blen(s) >= s.len(),
    decreases s.len(),
{
    if s.len() == 0 {
        lemma_blen_empty();
    } else {
        lemma_blen_first(s);
        lemma_blen_ge_len(s.drop_first());
    }
}

// ASCII strings: byte length == char count; conversely, equality forces every char to be ASCII
pub open spec fn sp_all_ascii(s: Seq<char>) -> bool {
    forall|i: int| 0 <= i < s.len() ==> (#[trigger] s[i] as u32) < 128
}

pub proof fn lemma_blen_ascii(s: Seq<char>)
    ensures
        sp_all_ascii(s) <==> sp_blen(s) == s.len(),
    decreases s.len(),
{
    if s.len() == 0 {
        lemma_blen_empty();
    } else {
        lemma_blen_first(s);
        lemma_blen_char(s[0]);
        lemma_blen_ascii(s.drop_first());
        lemma_blen_ge_len(s.drop_first());
        let t = s.drop_first();
        if sp_all_ascii(s) {
            assert forall|i: int| 0 <= i < t.len() implies (#[trigger] t[i] as u32) < 128 by {
                assert(t[i] == s[i + 1]);
            }
        }
        if sp_blen(s) == s.len() {
            assert forall|i: int| 0 <= i < s.len() implies (#[trigger] s[i] as u32) < 128 by {
                if i > 0 {
                    assert(s[i] == t[i - 1]);
                }
            }
        }
    }
}

// the encoding determines the chars
pub proof fn lemma_enc_inj(x: Seq<char>, y: Seq<char>)
    requires
        encode_utf8(x) == encode_utf8(y),
    ensures
        x == y,
{
    encode_utf8_decode_utf8(x);
    encode_utf8_decode_utf8(y);
}

// K1: the byte offset of a char prefix is a char boundary
pub proof fn lemma_boundary(a: Seq<char>, b: Seq<char>)
    ensures
        is_char_boundary(encode_utf8(a + b), sp_blen(a) as int),
        sp_blen(a) <= encode_utf8(a + b).len(),
    decreases a.len(),
{
    let s = a + b;
    let bytes = encode_utf8(s);
    lemma_blen_concat(a, b);
    encode_utf8_valid_utf8(s);   // is_char_boundary unfolds only on valid UTF-8
    if a.len() == 0 {
        lemma_blen_empty();
        assert(a =~= Seq::<char>::empty());
    } else {
        encode_utf8_first_scalar(s);
        let l = encode_scalar(s[0] as u32).len();
        assert(s =~= seq![s[0]] + s.drop_first());
        lemma_blen_first(s);
        lemma_blen_first(a);
        assert(s[0] == a[0]);
        lemma_blen_char(s[0]);
        reveal_with_fuel(encode_utf8, 2);
        assert(seq![s[0]].drop_first() =~= Seq::<char>::empty());
        assert(encode_utf8(seq![s[0]]) =~= encode_scalar(s[0] as u32));
        assert(bytes =~= encode_scalar(s[0] as u32) + encode_utf8(s.drop_first()));
        assert(pop_first_scalar(bytes) =~= encode_utf8(s.drop_first()));
        assert(s.drop_first() =~= a.drop_first() + b);
        lemma_boundary(a.drop_first(), b);
        assert(sp_blen(a) - l == sp_blen(a.drop_first()));
    }
}

// K2: in a string whose chars are a + b, offset sp_blen(a) is a boundary and both byte halves are the
// encodings of a and b (so the slices taken there have views a and b)
pub proof fn lemma_str_split(a: Seq<char>, b: Seq<char>)
    ensures
        valid_utf8(encode_utf8(a + b)),
        is_char_boundary(encode_utf8(a + b), 0),
        is_char_boundary(encode_utf8(a + b), encode_utf8(a + b).len() as int),
        is_char_boundary(encode_utf8(a + b), sp_blen(a) as int),
        sp_blen(a) + sp_blen(b) == encode_utf8(a + b).len(),
        encode_utf8(a + b).subrange(0, sp_blen(a) as int) == encode_utf8(a),
        encode_utf8(a + b).subrange(sp_blen(a) as int, encode_utf8(a + b).len() as int) == encode_utf8(b),
{
    let bytes = encode_utf8(a + b);
    lemma_boundary(a, b);
    encode_utf8_concat(a, b);
    encode_utf8_valid_utf8(a + b);
    is_char_boundary_start_end_of_seq(bytes);
    assert(bytes.subrange(0, sp_blen(a) as int) =~= encode_utf8(a));
    assert(bytes.subrange(sp_blen(a) as int, bytes.len() as int) =~= encode_utf8(b));
}

// every string with the bytes of `a` has the chars of `a` (quantified form of lemma_enc_inj, for slices
// that are temporaries in the code)
pub proof fn lemma_view_of_bytes(a: Seq<char>)
    ensures
        forall|x: Seq<char>| #[trigger] encode_utf8(x) == encode_utf8(a) ==> x == a,
{
    assert forall|x: Seq<char>| #[trigger] encode_utf8(x) == encode_utf8(a) implies x == a by {
        lemma_enc_inj(x, a);
    }
}

// ============================ part 2: the checkfile format ======================================

pub open spec fn sp_is_lhex(c: char) -> bool {
    ('0' <= c && c <= '9') || ('a' <= c && c <= 'f')
}

pub open spec fn sp_hexval(c: char) -> int {
    if '0' <= c && c <= '9' {
        c as int - '0' as int
    } else {
        c as int - 'a' as int + 10
    }
}

// the hash field: exactly 64 chars, each a lowercase hex digit
pub open spec fn sp_hex_ok(h: Seq<char>) -> bool {
    h.len() == 64 && forall|i: int| 0 <= i < 64 ==> sp_is_lhex(#[trigger] h[i])
}

pub open spec fn sp_hex_byte(h: Seq<char>, j: int) -> u8 {
    (16 * sp_hexval(h[2 * j]) + sp_hexval(h[2 * j + 1])) as u8
}

pub open spec fn sp_hex_decode(h: Seq<char>) -> Seq<u8> {
    Seq::new(32, |j: int| sp_hex_byte(h, j))
}

// unescaping (what_does_check_do.md): `\\` -> `\`, `\n` -> LF, `\r` -> CR; any other char after a
// backslash, or a backslash at the end, is an error
pub open spec fn sp_unesc_char(e: char) -> Option<char> {
    if e == 'n' {
        Some('\n')
    } else if e == 'r' {
        Some('\r')
    } else if e == '\\' {
        Some('\\')
    } else {
        None
    }
}

pub open spec fn sp_prepend(acc: Seq<char>, r: Option<Seq<char>>) -> Option<Seq<char>> {
    match r {
        Some(x) => Some(acc + x),
        None => None,
    }
}

pub open spec fn sp_unescape(s: Seq<char>) -> Option<Seq<char>>
    decreases s.len(),
{
    if s.len() == 0 {
        Some(Seq::<char>::empty())
    } else if s[0] != '\\' {
        sp_prepend(seq![s[0]], sp_unescape(s.drop_first()))
    } else if s.len() < 2 {
        None
    } else {
        match sp_unesc_char(s[1]) {
            None => None,
            Some(c) => sp_prepend(seq![c], sp_unescape(s.skip(2))),
        }
    }
}

// escaping (the output side): `\` -> `\\`, LF -> `\n`, CR -> `\r`, everything else verbatim
pub open spec fn sp_esc_char(c: char) -> Seq<char> {
    if c == '\\' {
        seq!['\\', '\\']
    } else if c == '\n' {
        seq!['\\', 'n']
    } else if c == '\r' {
        seq!['\\', 'r']
    } else {
        seq![c]
    }
}

pub open spec fn sp_escape(s: Seq<char>) -> Seq<char>
    decreases s.len(),
{
    if s.len() == 0 {
        Seq::<char>::empty()
    } else {
        sp_esc_char(s[0]) + sp_escape(s.drop_first())
    }
}

pub open spec fn sp_needs_escape(s: Seq<char>) -> bool {
    s.contains('\\') || s.contains('\n') || s.contains('\r')
}

// a path that can be checked: not empty, no NUL, no U+FFFD
pub open spec fn sp_path_ok(p: Seq<char>) -> bool {
    p.len() > 0 && !p.contains('\0') && !p.contains('\u{FFFD}')
}

pub open spec fn sp_is_eol(c: char) -> bool {
    c == '\r' || c == '\n'
}

// strip the line terminator(s): trailing CR / LF chars
pub open spec fn sp_trim_eol(s: Seq<char>) -> Seq<char>
    decreases s.len(),
{
    if s.len() > 0 && sp_is_eol(s.last()) {
        sp_trim_eol(s.drop_last())
    } else {
        s
    }
}

pub open spec fn sp_sep() -> Seq<char> {
    seq![' ', ' ']
}

pub open spec fn sp_tag_prefix() -> Seq<char> {
    seq!['B', 'L', 'A', 'K', 'E', '3', ' ', '(']
}

pub open spec fn sp_tag_sep() -> Seq<char> {
    seq![')', ' ', '=', ' ']
}

pub open spec fn sp_is_first_occ(s: Seq<char>, p: Seq<char>, k: int) -> bool {
    sp_occurs_at(s, p, k) && forall|j: int| 0 <= j < k ==> !sp_occurs_at(s, p, j)
}

pub open spec fn sp_is_last_occ(s: Seq<char>, p: Seq<char>, k: int) -> bool {
    sp_occurs_at(s, p, k) && forall|j: int| k < j ==> !sp_occurs_at(s, p, j)
}

// split around the FIRST occurrence of p
pub open spec fn sp_split_first(s: Seq<char>, p: Seq<char>) -> Option<(Seq<char>, Seq<char>)> {
    if sp_has_occ(s, p) {
        let k = choose|k: int| sp_is_first_occ(s, p, k);
        Some((s.take(k), s.skip(k + p.len())))
    } else {
        None
    }
}

// split around the LAST occurrence of p
pub open spec fn sp_split_last(s: Seq<char>, p: Seq<char>) -> Option<(Seq<char>, Seq<char>)> {
    if sp_has_occ(s, p) {
        let k = choose|k: int| sp_is_last_occ(s, p, k);
        Some((s.take(k), s.skip(k + p.len())))
    } else {
        None
    }
}

// "<hash>  <file>": the file may contain "  ", so the FIRST separator counts. Result (hash, file).
pub open spec fn sp_split_untagged(body: Seq<char>) -> Option<(Seq<char>, Seq<char>)> {
    sp_split_first(body, sp_sep())
}

// "BLAKE3 (<file>) = <hash>": the file may contain ") = ", so the LAST separator counts. Result (file, hash).
pub open spec fn sp_split_tagged(body: Seq<char>) -> Option<(Seq<char>, Seq<char>)> {
    if sp_occurs_at(body, sp_tag_prefix(), 0) {
        sp_split_last(body.skip(8), sp_tag_sep())
    } else {
        None
    }
}

// The two output forms. A line that has the --tag shape is a --tag line (its path may contain "  ");
// anything else is tried as "<hash>  <file>". Result (hash field, file field).
pub open spec fn sp_split_line(body: Seq<char>) -> Option<(Seq<char>, Seq<char>)> {
    match sp_split_tagged(body) {
        Some((f, h)) => Some((h, f)),
        None => sp_split_untagged(body),
    }
}

pub struct SpParsed {
    pub hash: Seq<u8>,
    pub path: Seq<char>,
    pub file_string: Seq<char>,
    pub is_escaped: bool,
}

// what `--check` makes of one line of text
pub open spec fn sp_parse(line: Seq<char>) -> Option<SpParsed> {
    let l = sp_trim_eol(line);
    if l.len() == 0 {
        None
    } else {
        let esc = l[0] == '\\';
        let body = if esc {
            l.skip(1)
        } else {
            l
        };
        match sp_split_line(body) {
            None => None,
            Some((hash_hex, file_str)) => {
                if !sp_hex_ok(hash_hex) {
                    None
                } else {
                    let po = if esc {
                        sp_unescape(file_str)
                    } else {
                        Some(file_str)
                    };
                    match po {
                        None => None,
                        Some(p) => if sp_path_ok(p) {
                            Some(
                                SpParsed {
                                    hash: sp_hex_decode(hash_hex),
                                    path: p,
                                    file_string: file_str,
                                    is_escaped: esc,
                                },
                            )
                        } else {
                            None
                        },
                    }
                }
            },
        }
    }
}

// ---- lemmas used by the code proofs --------------------------------------------------------------

// a run of non-backslash chars is copied verbatim
pub proof fn lemma_unescape_plain_prefix(s: Seq<char>, k: int)
    requires
        0 <= k <= s.len(),
        forall|j: int| 0 <= j < k ==> s[j] != '\\',
    ensures
        sp_unescape(s) == sp_prepend(s.take(k), sp_unescape(s.skip(k))),
    decreases k,
{
    if k == 0 {
        assert(s.skip(0) =~= s);
        assert(s.take(0) =~= Seq::<char>::empty());
        match sp_unescape(s) {
            Some(x) => {
                assert(Seq::<char>::empty() + x =~= x);
            },
            None => {},
        }
    } else {
        let t = s.drop_first();
        assert forall|j: int| 0 <= j < k - 1 implies t[j] != '\\' by {
            assert(t[j] == s[j + 1]);
        }
        lemma_unescape_plain_prefix(t, k - 1);
        assert(t.skip(k - 1) =~= s.skip(k));
        assert(seq![s[0]] + t.take(k - 1) =~= s.take(k));
        match sp_unescape(s.skip(k)) {
            Some(x) => {
                assert(seq![s[0]] + (t.take(k - 1) + x) =~= s.take(k) + x);
            },
            None => {},
        }
    }
}

// the result of trim_end_matches(['\r', '\n']) as characterised by its contract is sp_trim_eol
pub proof fn lemma_trim_eol_unique(s: Seq<char>, r: Seq<char>)
    requires
        r.len() <= s.len(),
        r == s.take(r.len() as int),
        forall|j: int| r.len() <= j < s.len() ==> sp_is_eol(#[trigger] s[j]),
        r.len() > 0 ==> !sp_is_eol(r[r.len() - 1]),
    ensures
        sp_trim_eol(s) == r,
    decreases s.len() - r.len(),
{
    if r.len() == s.len() {
        assert(r =~= s);
    } else {
        assert(sp_is_eol(s[s.len() - 1]));
        let t = s.drop_last();
        assert(r =~= t.take(r.len() as int));
        lemma_trim_eol_unique(t, r);
    }
}

// split_once / rsplit_once as characterised by their contracts are sp_split_first / sp_split_last
pub proof fn lemma_split_first_unique(s: Seq<char>, p: Seq<char>, a: Seq<char>, b: Seq<char>)
    requires
        sp_is_split_first(s, p, a, b),
    ensures
        sp_split_first(s, p) == Some((a, b)),
{
    let k0 = a.len() as int;
    assert(s.subrange(k0, k0 + p.len()) =~= p);
    assert(sp_is_first_occ(s, p, k0));
    let k = choose|k: int| sp_is_first_occ(s, p, k);
    assert(k == k0) by {
        if k < k0 {
            assert(!sp_occurs_at(s, p, k));
        }
        if k0 < k {
            assert(!sp_occurs_at(s, p, k0));
        }
    }
    assert(s.take(k0) =~= a);
    assert(s.skip(k0 + p.len()) =~= b);
}

pub proof fn lemma_split_last_unique(s: Seq<char>, p: Seq<char>, a: Seq<char>, b: Seq<char>)
    requires
        sp_is_split_last(s, p, a, b),
    ensures
        sp_split_last(s, p) == Some((a, b)),
{
    let k0 = a.len() as int;
    assert(s.subrange(k0, k0 + p.len()) =~= p);
    assert(sp_is_last_occ(s, p, k0));
    let k = choose|k: int| sp_is_last_occ(s, p, k);
    assert(k == k0) by {
        if k < k0 {
            assert(!sp_occurs_at(s, p, k0));
        }
        if k0 < k {
            assert(!sp_occurs_at(s, p, k));
        }
    }
    assert(s.take(k0) =~= a);
    assert(s.skip(k0 + p.len()) =~= b);
}

// quantified forms (the code returns the wrapper's result as its tail expression)
pub proof fn lemma_split_first_all(s: Seq<char>, p: Seq<char>)
    ensures
        forall|a: Seq<char>, b: Seq<char>| #[trigger]
            sp_is_split_first(s, p, a, b) ==> sp_split_first(s, p) == Some((a, b)),
        !sp_has_occ(s, p) ==> sp_split_first(s, p) is None,
{
    assert forall|a: Seq<char>, b: Seq<char>| #[trigger] sp_is_split_first(s, p, a, b) implies sp_split_first(s, p)
        == Some((a, b)) by {
        lemma_split_first_unique(s, p, a, b);
    }
}

pub proof fn lemma_split_last_all(s: Seq<char>, p: Seq<char>)
    ensures
        forall|a: Seq<char>, b: Seq<char>| #[trigger]
            sp_is_split_last(s, p, a, b) ==> sp_split_last(s, p) == Some((a, b)),
        !sp_has_occ(s, p) ==> sp_split_last(s, p) is None,
{
    assert forall|a: Seq<char>, b: Seq<char>| #[trigger] sp_is_split_last(s, p, a, b) implies sp_split_last(s, p)
        == Some((a, b)) by {
        lemma_split_last_unique(s, p, a, b);
    }
}

// the literals of the format
pub proof fn lemma_literals()
    ensures
        "  "@ == sp_sep(),
        "BLAKE3 ("@ == sp_tag_prefix(),
        ") = "@ == sp_tag_sep(),
        sp_blen(sp_tag_prefix()) == 8,
        "\n"@ == seq!['\n'],
        "\r"@ == seq!['\r'],
        "\\"@ == seq!['\\'],
{
    reveal_strlit("  ");
    reveal_strlit("BLAKE3 (");
    reveal_strlit(") = ");
    reveal_strlit("\n");
    reveal_strlit("\r");
    reveal_strlit("\\");
    assert("  "@ =~= sp_sep());
    assert("BLAKE3 ("@ =~= sp_tag_prefix());
    assert(") = "@ =~= sp_tag_sep());
    assert("\n"@ =~= seq!['\n']);
    assert("\r"@ =~= seq!['\r']);
    assert("\\"@ =~= seq!['\\']);
    assert(sp_all_ascii(sp_tag_prefix()));
    lemma_blen_ascii(sp_tag_prefix());
}

// a hash field of 64 BYTES whose first 64 chars are lowercase hex has exactly 64 chars
pub proof fn lemma_hex_len(h: Seq<char>)
    requires
        sp_blen(h) == 64,
        h.len() >= 64,
        forall|i: int| 0 <= i < 64 ==> sp_is_lhex(#[trigger] h[i]),
    ensures
        h.len() == 64,
{
    let a = h.take(64);
    let b = h.skip(64);
    assert(h =~= a + b);
    lemma_blen_concat(a, b);
    assert(sp_all_ascii(a)) by {
        assert forall|i: int| 0 <= i < a.len() implies (#[trigger] a[i] as u32) < 128 by {
            assert(a[i] == h[i]);
            assert(sp_is_lhex(h[i]));
        }
    }
    lemma_blen_ascii(a);
    lemma_blen_zero(b);
}

// a well-formed hash field is 64 bytes long
pub proof fn lemma_hex_ok_blen(h: Seq<char>)
    requires
        sp_hex_ok(h),
    ensures
        sp_blen(h) == 64,
{
    assert(sp_all_ascii(h)) by {
        assert forall|i: int| 0 <= i < h.len() implies (#[trigger] h[i] as u32) < 128 by {
            assert(sp_is_lhex(h[i]));
        }
    }
    lemma_blen_ascii(h);
}
