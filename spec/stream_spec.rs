// ---------------------------------------------------------------------------------------------
// Lemmas about the output stream of a root node (sp_stream / sp_stream_byte / sp_out_root_block of
// blake3_spec.rs and tree_spec.rs). All proved; nothing here is assumed.
//   S(o)[i] = sp_out_root_block(o, i / 64)[i % 64]      (o.counter plays no role)
// ---------------------------------------------------------------------------------------------

// every output block has 64 bytes
pub proof fn lemma_root_block_len(o: SpOut, k: u64)
    ensures
        sp_out_root_block(o, k).len() == 64,
{
}

// the stream does not depend on the node's own counter field
pub proof fn lemma_stream_ignores_counter(o: SpOut, c: u64, i: int)
    ensures
        sp_stream_byte(SpOut { counter: c, ..o }, i) == sp_stream_byte(o, i),
{
}

// reading a then b bytes is reading a + b bytes
pub proof fn lemma_stream_concat(o: SpOut, from: int, a: int, b: int)
    requires
        0 <= a,
        0 <= b,
    ensures
        sp_stream(o, from, a) + sp_stream(o, from + a, b) == sp_stream(o, from, a + b),
{
    assert(sp_stream(o, from, a) + sp_stream(o, from + a, b) =~= sp_stream(o, from, a + b));
}

pub proof fn lemma_stream_empty(o: SpOut, from: int)
    ensures
        sp_stream(o, from, 0) == Seq::<u8>::empty(),
{
    assert(sp_stream(o, from, 0) =~= Seq::<u8>::empty());
}

// a piece of block k is a piece of the stream
pub proof fn lemma_stream_in_block(o: SpOut, k: u64, off: int, n: int)
    requires
        0 <= off,
        0 <= n,
        off + n <= 64,
    ensures
        sp_out_root_block(o, k).subrange(off, off + n) == sp_stream(o, 64 * k + off, n),
{
    let blk = sp_out_root_block(o, k);
    assert(blk.len() == 64);
    let a = blk.subrange(off, off + n);
    let b = sp_stream(o, 64 * k + off, n);
    assert forall|i: int| 0 <= i < n implies #[trigger] a[i] == b[i] by {
        let x = 64 * k + off + i;
        assert(x / 64 == k && x % 64 == off + i) by (nonlinear_arith)
            requires
                x == 64 * k + (off + i),
                0 <= off + i < 64,
        ;
    }
    assert(a =~= b);
}

// nb consecutive whole blocks starting at block k are the stream from 64 k
pub proof fn lemma_stream_blocks(o: SpOut, k: u64, nb: int, out: Seq<u8>)
    requires
        0 <= nb,
        k + nb <= u64::MAX,
        out.len() == 64 * nb,
        forall|j: int| 0 <= j < nb ==> #[trigger] out.subrange(64 * j, 64 * j + 64) == sp_out_root_block(o, (k + j) as u64),
    ensures
        out == sp_stream(o, 64 * k, 64 * nb),
{
    let b = sp_stream(o, 64 * k, 64 * nb);
    assert forall|i: int| 0 <= i < 64 * nb implies #[trigger] out[i] == b[i] by {
        let j = i / 64;
        let r = i % 64;
        assert(0 <= j < nb);
        assert(out.subrange(64 * j, 64 * j + 64)[r] == out[i]);
        let x = 64 * k + i;
        assert(x / 64 == k + j && x % 64 == r) by (nonlinear_arith)
            requires
                x == 64 * (k + j) + r,
                i == 64 * j + r,
                0 <= r < 64,
        ;
    }
    assert(out =~= b);
}

// "the first 32 bytes of the stream are the hash"
pub proof fn lemma_stream_hash32(o: SpOut)
    ensures
        sp_stream(o, 0, 32) == sp_hash32(o),
{
    lemma_stream_in_block(o, 0, 0, 32);
}
