// ---------------------------------------------------------------------------------------------
// BLAKE3 SPECIFICATION as Verus spec functions, transcribed from the BLAKE3 paper (sections
// 2.1-2.6): compression function G / rounds / message permutation, chunk chaining values, the
// binary tree, root output, the three modes.  Independent of src/ and of reference_impl/.
// ---------------------------------------------------------------------------------------------

pub open spec fn sp_iv() -> Seq<u32> {
    seq![
        0x6A09E667u32, 0xBB67AE85u32, 0x3C6EF372u32, 0xA54FF53Au32,
        0x510E527Fu32, 0x9B05688Cu32, 0x1F83D9ABu32, 0x5BE0CD19u32,
    ]
}

pub spec const SP_CHUNK_START: u8 = 1;
pub spec const SP_CHUNK_END: u8 = 2;
pub spec const SP_PARENT: u8 = 4;
pub spec const SP_ROOT: u8 = 8;
pub spec const SP_KEYED_HASH: u8 = 16;
pub spec const SP_DERIVE_KEY_CONTEXT: u8 = 32;
pub spec const SP_DERIVE_KEY_MATERIAL: u8 = 64;

// The paper's message word permutation (table 2): m'[i] = m[PERM[i]].
pub open spec fn sp_perm() -> Seq<int> {
    seq![2int, 6, 3, 10, 7, 0, 4, 13, 1, 11, 12, 5, 9, 14, 15, 8]
}

// Index schedule of round r: the r-fold permutation, so that the permuted message of round r
// is m_r[i] = m[sp_sched(r)[i]].
pub open spec fn sp_sched(r: nat) -> Seq<int>
    decreases r,
{
    if r == 0 {
        Seq::new(16, |i: int| i)
    } else {
        Seq::new(16, |i: int| sp_sched((r - 1) as nat)[sp_perm()[i]])
    }
}

// The quarter-round G on state words a, b, c, d with message words x, y.
pub open spec fn sp_g(s: Seq<u32>, a: int, b: int, c: int, d: int, x: u32, y: u32) -> Seq<u32> {
    let s = s.update(a, s[a].wrapping_add(s[b]).wrapping_add(x));
    let s = s.update(d, sp_rotr(s[d] ^ s[a], 16));
    let s = s.update(c, s[c].wrapping_add(s[d]));
    let s = s.update(b, sp_rotr(s[b] ^ s[c], 12));
    let s = s.update(a, s[a].wrapping_add(s[b]).wrapping_add(y));
    let s = s.update(d, sp_rotr(s[d] ^ s[a], 8));
    let s = s.update(c, s[c].wrapping_add(s[d]));
    let s = s.update(b, sp_rotr(s[b] ^ s[c], 7));
    s
}

// One round: columns then diagonals, message words taken through the index schedule `sc`.
#[verifier::opaque]
pub open spec fn sp_round(s: Seq<u32>, m: Seq<u32>, sc: Seq<int>) -> Seq<u32> {
    let s = sp_g(s, 0, 4, 8, 12, m[sc[0]], m[sc[1]]);
    let s = sp_g(s, 1, 5, 9, 13, m[sc[2]], m[sc[3]]);
    let s = sp_g(s, 2, 6, 10, 14, m[sc[4]], m[sc[5]]);
    let s = sp_g(s, 3, 7, 11, 15, m[sc[6]], m[sc[7]]);
    let s = sp_g(s, 0, 5, 10, 15, m[sc[8]], m[sc[9]]);
    let s = sp_g(s, 1, 6, 11, 12, m[sc[10]], m[sc[11]]);
    let s = sp_g(s, 2, 7, 8, 13, m[sc[12]], m[sc[13]]);
    let s = sp_g(s, 3, 4, 9, 14, m[sc[14]], m[sc[15]]);
    s
}

pub open spec fn sp_counter_low(t: u64) -> u32 {
    t as u32
}

pub open spec fn sp_counter_high(t: u64) -> u32 {
    (t >> 32) as u32
}

pub open spec fn sp_init_state(cv: Seq<u32>, t: u64, len: u32, flags: u32) -> Seq<u32> {
    seq![
        cv[0], cv[1], cv[2], cv[3], cv[4], cv[5], cv[6], cv[7],
        sp_iv()[0], sp_iv()[1], sp_iv()[2], sp_iv()[3],
        sp_counter_low(t), sp_counter_high(t), len, flags,
    ]
}

// Seven rounds.
#[verifier::opaque]
pub open spec fn sp_rounds(cv: Seq<u32>, m: Seq<u32>, t: u64, len: u32, flags: u32) -> Seq<u32> {
    let s = sp_init_state(cv, t, len, flags);
    let s = sp_round(s, m, sp_sched(0));
    let s = sp_round(s, m, sp_sched(1));
    let s = sp_round(s, m, sp_sched(2));
    let s = sp_round(s, m, sp_sched(3));
    let s = sp_round(s, m, sp_sched(4));
    let s = sp_round(s, m, sp_sched(5));
    let s = sp_round(s, m, sp_sched(6));
    s
}

// The compression function: 16 output words (the first 8 are the new chaining value).
pub open spec fn sp_compress(cv: Seq<u32>, m: Seq<u32>, t: u64, len: u32, flags: u32) -> Seq<u32> {
    let s = sp_rounds(cv, m, t, len, flags);
    Seq::new(16, |i: int| if i < 8 { s[i] ^ s[i + 8] } else { s[i] ^ cv[i - 8] })
}

// ---- bytes <-> words --------------------------------------------------------------------------
pub open spec fn sp_words(b: Seq<u8>) -> Seq<u32> {
    Seq::new(b.len() / 4, |i: int| sp_le32(b.subrange(4 * i, 4 * i + 4)))
}

pub open spec fn sp_bytes(w: Seq<u32>) -> Seq<u8> {
    Seq::new(4 * w.len(), |i: int| sp_u32_le(w[i / 4])[i % 4])
}

// compression of a 64-byte block given as bytes
pub open spec fn sp_compress_block(cv: Seq<u32>, block: Seq<u8>, t: u64, len: u8, flags: u8) -> Seq<u32> {
    sp_compress(cv, sp_words(block), t, len as u32, flags as u32)
}

pub open spec fn sp_cv_of(out16: Seq<u32>) -> Seq<u32> {
    out16.subrange(0, 8)
}

// ---- nodes: a chunk or parent just before its last compression --------------------------------
pub struct SpOut {
    pub cv: Seq<u32>,      // input chaining value (8 words)
    pub block: Seq<u8>,    // 64 bytes (zero padded)
    pub block_len: u8,
    pub counter: u64,
    pub flags: u8,
}

// non-root: the 32-byte chaining value of the node
pub open spec fn sp_out_cv(o: SpOut) -> Seq<u8> {
    sp_bytes(sp_cv_of(sp_compress_block(o.cv, o.block, o.counter, o.block_len, o.flags)))
}

// root: the k-th 64-byte block of the output stream
pub open spec fn sp_out_root_block(o: SpOut, k: u64) -> Seq<u8> {
    sp_bytes(sp_compress_block(o.cv, o.block, k, o.block_len, (o.flags | SP_ROOT) as u8))
}

pub open spec fn sp_zeros(n: nat) -> Seq<u8> {
    Seq::new(n, |i: int| 0u8)
}

pub open spec fn sp_pad64(b: Seq<u8>) -> Seq<u8> {
    b + sp_zeros((64 - b.len()) as nat)
}

// ---- chunks -------------------------------------------------------------------------------------
// chaining value after the first nb full 64-byte blocks of chunk bytes c (CHUNK_START on the first)
pub open spec fn sp_chunk_fold(key: Seq<u32>, c: Seq<u8>, nb: nat, t: u64, flags: u8) -> Seq<u32>
    decreases nb,
{
    if nb == 0 {
        key
    } else {
        let prev = sp_chunk_fold(key, c, (nb - 1) as nat, t, flags);
        let f = if nb == 1 { (flags | SP_CHUNK_START) as u8 } else { flags };
        sp_cv_of(sp_compress_block(prev, c.subrange(64 * (nb - 1), 64 * (nb as int)), t, 64, f))
    }
}

// number of blocks compressed before the last block of a chunk of n bytes
pub open spec fn sp_blocks_before_last(n: nat) -> nat {
    if n == 0 { 0 } else { ((n - 1) / 64) as nat }
}

// The node of a chunk c (0 <= |c| <= 1024) with chunk counter t: all blocks but the last are
// compressed, the last one (possibly empty or short, zero padded) carries CHUNK_END.
pub open spec fn sp_chunk_out(key: Seq<u32>, c: Seq<u8>, t: u64, flags: u8) -> SpOut {
    let nb = sp_blocks_before_last(c.len());
    SpOut {
        cv: sp_chunk_fold(key, c, nb, t, flags),
        block: sp_pad64(c.subrange(64 * (nb as int), c.len() as int)),
        block_len: (c.len() - 64 * nb) as u8,
        counter: t,
        flags: if nb == 0 { (flags | SP_CHUNK_START | SP_CHUNK_END) as u8 } else { (flags | SP_CHUNK_END) as u8 },
    }
}

pub open spec fn sp_chunk_cv(key: Seq<u32>, c: Seq<u8>, t: u64, flags: u8) -> Seq<u8> {
    sp_out_cv(sp_chunk_out(key, c, t, flags))
}

// ---- parents ------------------------------------------------------------------------------------
pub open spec fn sp_parent_out(l: Seq<u8>, r: Seq<u8>, key: Seq<u32>, flags: u8) -> SpOut {
    SpOut { cv: key, block: l + r, block_len: 64, counter: 0, flags: (flags | SP_PARENT) as u8 }
}

pub open spec fn sp_parent_cv(l: Seq<u8>, r: Seq<u8>, key: Seq<u32>, flags: u8) -> Seq<u8> {
    sp_out_cv(sp_parent_out(l, r, key, flags))
}

// ---- the many-inputs kernel interface (hash1 of the paper's "hash_many") -----------------------
// N-byte input (N a multiple of 64): all blocks compressed in sequence with the same counter,
// flags_start on the first block, flags_end on the last.
pub open spec fn sp_hash1_fold(key: Seq<u32>, input: Seq<u8>, nb: nat, total: nat, t: u64, flags: u8, fs: u8, fe: u8) -> Seq<u32>
    decreases nb,
{
    if nb == 0 {
        key
    } else {
        let prev = sp_hash1_fold(key, input, (nb - 1) as nat, total, t, flags, fs, fe);
        let f1 = if nb == 1 { (flags | fs) as u8 } else { flags };
        let f = if nb == total { (f1 | fe) as u8 } else { f1 };
        sp_cv_of(sp_compress_block(prev, input.subrange(64 * (nb - 1), 64 * (nb as int)), t, 64, f))
    }
}

pub open spec fn sp_hash1(input: Seq<u8>, key: Seq<u32>, t: u64, flags: u8, fs: u8, fe: u8) -> Seq<u8> {
    sp_bytes(sp_hash1_fold(key, input, input.len() / 64, input.len() / 64, t, flags, fs, fe))
}
