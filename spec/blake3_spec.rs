// ---------------------------------------------------------------------------------------------
// BLAKE3 SPECIFICATION as Verus spec functions, transcribed from the BLAKE3 paper (sections
// 2.1-2.6): compression function G / rounds / message permutation, chunk chaining values, the
// binary tree, root output, the three modes.  Independent of src/ and of reference_impl/.
// ---------------------------------------------------------------------------------------------

pub open spec fn sp_iv() -> Seq<u32> {
    seq![
        0x6A09E667u32, 0xBB67AE85u32, 0x3C6EF372u32, 0xA54FF53Au32,
        0x510E527Fu32, 0x9B05688Cu32, 0x1F83D9ABu32, 0x5BE0CD19u32,
    ]
}

pub spec const SP_CHUNK_START: u8 = 1;
pub spec const SP_CHUNK_END: u8 = 2;
pub spec const SP_PARENT: u8 = 4;
pub spec const SP_ROOT: u8 = 8;
pub spec const SP_KEYED_HASH: u8 = 16;
pub spec const SP_DERIVE_KEY_CONTEXT: u8 = 32;
pub spec const SP_DERIVE_KEY_MATERIAL: u8 = 64;

// The paper's message word permutation (table 2): m'[i] = m[PERM[i]].
pub open spec fn sp_perm() -> Seq<int> {
    seq![2int, 6, 3, 10, 7, 0, 4, 13, 1, 11, 12, 5, 9, 14, 15, 8]
}

// Index schedule of round r: the r-fold permutation, so that the permuted message of round r
// is m_r[i] = m[sp_sched(r)[i]].
pub open spec fn sp_sched(r: nat) -> Seq<int>
    decreases r,
{
    if r == 0 {
        Seq::new(16, |i: int| i)
    } else {
        Seq::new(16, |i: int| sp_sched((r - 1) as nat)[sp_perm()[i]])
    }
}

// The quarter-round G on state words a, b, c, d with message words x, y.
pub open spec fn sp_g(s: Seq<u32>, a: int, b: int, c: int, d: int, x: u32, y: u32) -> Seq<u32> {
    let s = s.update(a, s[a].wrapping_add(s[b]).wrapping_add(x));
    let s = s.update(d, sp_rotr(s[d] ^ s[a], 16));
    let s = s.update(c, s[c].wrapping_add(s[d]));
    let s = s.update(b, sp_rotr(s[b] ^ s[c], 12));
    let s = s.update(a, s[a].wrapping_add(s[b]).wrapping_add(y));
    let s = s.update(d, sp_rotr(s[d] ^ s[a], 8));
    let s = s.update(c, s[c].wrapping_add(s[d]));
    let s = s.update(b, sp_rotr(s[b] ^ s[c], 7));
    s
}

// One round: columns then diagonals, message words taken through the index schedule `sc`.
#[verifier::opaque]
pub open spec fn sp_round(s: Seq<u32>, m: Seq<u32>, sc: Seq<int>) -> Seq<u32> {
    let s = sp_g(s, 0, 4, 8, 12, m[sc[0]], m[sc[1]]);
    let s = sp_g(s, 1, 5, 9, 13, m[sc[2]], m[sc[3]]);
    let s = sp_g(s, 2, 6, 10, 14, m[sc[4]], m[sc[5]]);
    let s = sp_g(s, 3, 7, 11, 15, m[sc[6]], m[sc[7]]);
    let s = sp_g(s, 0, 5, 10, 15, m[sc[8]], m[sc[9]]);
    let s = sp_g(s, 1, 6, 11, 12, m[sc[10]], m[sc[11]]);
    let s = sp_g(s, 2, 7, 8, 13, m[sc[12]], m[sc[13]]);
    let s = sp_g(s, 3, 4, 9, 14, m[sc[14]], m[sc[15]]);
    s
}

pub open spec fn sp_counter_low(t: u64) -> u32 {
    t as u32
}

pub open spec fn sp_counter_high(t: u64) -> u32 {
    (t >> 32) as u32
}

pub open spec fn sp_init_state(cv: Seq<u32>, t: u64, len: u32, flags: u32) -> Seq<u32> {
    seq![
        cv[0], cv[1], cv[2], cv[3], cv[4], cv[5], cv[6], cv[7],
        sp_iv()[0], sp_iv()[1], sp_iv()[2], sp_iv()[3],
        sp_counter_low(t), sp_counter_high(t), len, flags,
    ]
}

// Seven rounds.
#[verifier::opaque]
pub open spec fn sp_rounds(cv: Seq<u32>, m: Seq<u32>, t: u64, len: u32, flags: u32) -> Seq<u32> {
    let s = sp_init_state(cv, t, len, flags);
    let s = sp_round(s, m, sp_sched(0));
    let s = sp_round(s, m, sp_sched(1));
    let s = sp_round(s, m, sp_sched(2));
    let s = sp_round(s, m, sp_sched(3));
    let s = sp_round(s, m, sp_sched(4));
    let s = sp_round(s, m, sp_sched(5));
    let s = sp_round(s, m, sp_sched(6));
    s
}

// The compression function: 16 output words (the first 8 are the new chaining value).
pub open spec fn sp_compress(cv: Seq<u32>, m: Seq<u32>, t: u64, len: u32, flags: u32) -> Seq<u32> {
    let s = sp_rounds(cv, m, t, len, flags);
    Seq::new(16, |i: int| if i < 8 { s[i] ^ s[i + 8] } else { s[i] ^ cv[i - 8] })
}

// ---- bytes <-> words --------------------------------------------------------------------------
pub open spec fn sp_words(b: Seq<u8>) -> Seq<u32> {
    Seq::new(b.len() / 4, |i: int| sp_le32(b.subrange(4 * i, 4 * i + 4)))
}

pub open spec fn sp_bytes(w: Seq<u32>) -> Seq<u8> {
    Seq::new(4 * w.len(), |i: int| sp_u32_le(w[i / 4])[i % 4])
}

// compression of a 64-byte block given as bytes
pub open spec fn sp_compress_block(cv: Seq<u32>, block: Seq<u8>, t: u64, len: u8, flags: u8) -> Seq<u32> {
    sp_compress(cv, sp_words(block), t, len as u32, flags as u32)
}

pub open spec fn sp_cv_of(out16: Seq<u32>) -> Seq<u32> {
    out16.subrange(0, 8)
}
