// ---------------------------------------------------------------------------------------------
// BLAKE3 SPECIFICATION, tree level (paper section 2.1 "tree structure", 2.4-2.6) and lemmas.
//   - input is split into 1024-byte chunks (the last possibly short; the empty input is one
//     empty chunk), chunk i gets counter t0 + i;
//   - the left subtree of a node over n > 1 chunks has lp2(n) chunks: the largest power of two
//     strictly below n; the right subtree has the rest;
//   - the root node is finalised with the ROOT flag and an output-block counter.
// ---------------------------------------------------------------------------------------------

pub open spec fn sp_lp2(n: nat) -> nat
    decreases n,
{
    if n <= 2 { 1 } else { 2 * sp_lp2(((n + 1) / 2) as nat) }
}

pub open spec fn sp_num_chunks(len: nat) -> nat {
    if len == 0 { 1 } else { ((len + 1023) / 1024) as nat }
}

pub open spec fn sp_min(a: int, b: int) -> int {
    if a <= b { a } else { b }
}

pub open spec fn sp_chunk_bytes(x: Seq<u8>, i: int) -> Seq<u8> {
    x.subrange(1024 * i, sp_min(1024 * (i + 1), x.len() as int))
}

pub type SpCv = Seq<u8>;

pub open spec fn sp_chunk_cvs(x: Seq<u8>, t0: u64, key: Seq<u32>, flags: u8) -> Seq<SpCv> {
    Seq::new(sp_num_chunks(x.len()), |i: int| sp_chunk_cv(key, sp_chunk_bytes(x, i), (t0 + i) as u64, flags))
}

// chaining value of the tree over a non-empty list of leaf chaining values
pub open spec fn sp_tree_cv(z: Seq<SpCv>, key: Seq<u32>, flags: u8) -> SpCv
    decreases z.len(),
{
    if z.len() <= 1 {
        z[0]
    } else {
        let p = sp_lp2(z.len()) as int;
        if 0 < p < z.len() {
            sp_parent_cv(sp_tree_cv(z.subrange(0, p), key, flags), sp_tree_cv(z.subrange(p, z.len() as int), key, flags), key, flags)
        } else {
            z[0]  // unreachable (lemma_lp2)
        }
    }
}

// (non-root) chaining value of the subtree whose bytes are x and whose first chunk has counter t0
pub open spec fn sp_subtree_cv(x: Seq<u8>, t0: u64, key: Seq<u32>, flags: u8) -> SpCv {
    sp_tree_cv(sp_chunk_cvs(x, t0, key, flags), key, flags)
}

// byte length of the left subtree of an input of len > 1024 bytes
pub open spec fn sp_left_len(len: nat) -> nat {
    1024 * sp_lp2(sp_num_chunks(len))
}

// the not-yet-finalised top node of the (sub)tree over x
pub open spec fn sp_subtree_out(x: Seq<u8>, t0: u64, key: Seq<u32>, flags: u8) -> SpOut {
    if x.len() <= 1024 {
        sp_chunk_out(key, x, t0, flags)
    } else {
        let l = sp_left_len(x.len()) as int;
        sp_parent_out(
            sp_subtree_cv(x.subrange(0, l), t0, key, flags),
            sp_subtree_cv(x.subrange(l, x.len() as int), (t0 + l / 1024) as u64, key, flags),
            key, flags)
    }
}

// the root node of a whole input, and the output stream it defines
pub open spec fn sp_root_out(x: Seq<u8>, key: Seq<u32>, flags: u8) -> SpOut {
    sp_subtree_out(x, 0, key, flags)
}

pub open spec fn sp_stream_byte(o: SpOut, i: int) -> u8 {
    sp_out_root_block(o, (i / 64) as u64)[i % 64]
}

pub open spec fn sp_stream(o: SpOut, from: int, n: int) -> Seq<u8> {
    Seq::new(n as nat, |i: int| sp_stream_byte(o, from + i))
}

pub open spec fn sp_hash32(o: SpOut) -> Seq<u8> {
    sp_out_root_block(o, 0).subrange(0, 32)
}

// the three modes
pub open spec fn sp_mode_hash(x: Seq<u8>) -> SpOut {
    sp_root_out(x, sp_iv(), 0)
}

pub open spec fn sp_mode_keyed(key: Seq<u8>, x: Seq<u8>) -> SpOut {
    sp_root_out(x, sp_words(key), SP_KEYED_HASH)
}

pub open spec fn sp_context_key(context: Seq<u8>) -> Seq<u8> {
    sp_hash32(sp_root_out(context, sp_iv(), SP_DERIVE_KEY_CONTEXT))
}

pub open spec fn sp_mode_derive(context: Seq<u8>, x: Seq<u8>) -> SpOut {
    sp_root_out(x, sp_words(sp_context_key(context)), SP_DERIVE_KEY_MATERIAL)
}

// one layer of parents over a list of chaining values, the odd one promoted
pub open spec fn sp_pairwise(z: Seq<SpCv>, key: Seq<u32>, flags: u8) -> Seq<SpCv> {
    Seq::new(((z.len() + 1) / 2) as nat, |i: int|
        if 2 * i + 1 < z.len() { sp_parent_cv(z[2 * i], z[2 * i + 1], key, flags) } else { z[2 * i] })
}

// ---------------------------------------------------------------------------------------------
// Lemmas
// ---------------------------------------------------------------------------------------------
pub proof fn lemma_pow2_basic()
    ensures
        sp_is_pow2(1), sp_is_pow2(2), sp_is_pow2(4), sp_is_pow2(8), sp_is_pow2(16),
        sp_is_pow2(1024), sp_is_pow2(2048),
{
    reveal_with_fuel(sp_is_pow2, 13);
}

pub proof fn lemma_pow2_double(a: int)
    requires
        sp_is_pow2(a),
    ensures
        sp_is_pow2(2 * a),
{
}

pub proof fn lemma_pow2_half(a: int)
    requires
        sp_is_pow2(a),
        a > 1,
    ensures
        a % 2 == 0,
        sp_is_pow2(a / 2),
{
}

// two powers of two: a < b ==> 2a <= b
pub proof fn lemma_pow2_gap(a: int, b: int)
    requires
        sp_is_pow2(a),
        sp_is_pow2(b),
        a < b,
    ensures
        2 * a <= b,
    decreases a,
{
    if a > 1 {
        lemma_pow2_half(a);
        lemma_pow2_half(b);
        lemma_pow2_gap(a / 2, b / 2);
    } else {
        lemma_pow2_half(b);
    }
}

pub proof fn lemma_lp2(n: nat)
    requires
        n >= 2,
    ensures
        sp_is_pow2(sp_lp2(n) as int),
        sp_lp2(n) < n,
        n <= 2 * sp_lp2(n),
    decreases n,
{
    if n > 2 {
        lemma_lp2(((n + 1) / 2) as nat);
    }
}

// a power of two p with p < n <= 2p is lp2(n)
pub proof fn lemma_lp2_unique(n: nat, p: int)
    requires
        n >= 2,
        sp_is_pow2(p),
        p < n,
        n <= 2 * p,
    ensures
        sp_lp2(n) == p,
{
    lemma_lp2(n);
    let q = sp_lp2(n) as int;
    if q < p {
        lemma_pow2_gap(q, p);
    } else if p < q {
        lemma_pow2_gap(p, q);
    }
}

// Lemma C: p a power of two, 1 <= q <= p  ==>  lp2(p + q) == p
pub proof fn lemma_lp2_concat(p: nat, q: nat)
    requires
        sp_is_pow2(p as int),
        1 <= q <= p,
    ensures
        sp_lp2(p + q) == p,
{
    lemma_lp2_unique(p + q, p as int);
}

// chunk list of a split input: bytes [0, 1024 p) and the rest
pub proof fn lemma_chunk_cvs_split(x: Seq<u8>, t0: u64, key: Seq<u32>, flags: u8, p: nat)
    requires
        0 < p < sp_num_chunks(x.len()),
        t0 + sp_num_chunks(x.len()) <= 0x1_0000_0000_0000_0000,
    ensures
        sp_chunk_cvs(x, t0, key, flags).subrange(0, p as int) == sp_chunk_cvs(x.subrange(0, 1024 * (p as int)), t0, key, flags),
        sp_chunk_cvs(x, t0, key, flags).subrange(p as int, sp_num_chunks(x.len()) as int)
            == sp_chunk_cvs(x.subrange(1024 * (p as int), x.len() as int), (t0 + p) as u64, key, flags),
        sp_num_chunks((x.len() - 1024 * p) as nat) == sp_num_chunks(x.len()) - p,
{
    let n = sp_num_chunks(x.len());
    let a = x.subrange(0, 1024 * (p as int));
    let b = x.subrange(1024 * (p as int), x.len() as int);
    assert(sp_num_chunks(a.len()) == p);
    assert(sp_num_chunks(b.len()) == n - p);
    assert forall|i: int| 0 <= i < p implies sp_chunk_cvs(x, t0, key, flags)[i] == sp_chunk_cvs(a, t0, key, flags)[i] by {
        assert(sp_chunk_bytes(x, i) =~= sp_chunk_bytes(a, i));
    }
    assert forall|i: int| 0 <= i < n - p implies sp_chunk_cvs(x, t0, key, flags)[p + i] == #[trigger] sp_chunk_cvs(b, (t0 + p) as u64, key, flags)[i] by {
        assert(sp_chunk_bytes(x, p + i) =~= sp_chunk_bytes(b, i));
    }
    assert(sp_chunk_cvs(x, t0, key, flags).subrange(0, p as int) =~= sp_chunk_cvs(a, t0, key, flags));
    assert(sp_chunk_cvs(x, t0, key, flags).subrange(p as int, n as int) =~= sp_chunk_cvs(b, (t0 + p) as u64, key, flags));
}

// Lemma S: the subtree CV of more than one chunk is the parent of its two halves
pub proof fn lemma_subtree_split(x: Seq<u8>, t0: u64, key: Seq<u32>, flags: u8)
    requires
        x.len() > 1024,
        t0 + sp_num_chunks(x.len()) <= 0x1_0000_0000_0000_0000,
    ensures
        ({
            let l = sp_left_len(x.len()) as int;
            &&& 1024 <= l < x.len() <= 2 * l
            &&& l % 1024 == 0
            &&& sp_subtree_cv(x, t0, key, flags) == sp_parent_cv(
                    sp_subtree_cv(x.subrange(0, l), t0, key, flags),
                    sp_subtree_cv(x.subrange(l, x.len() as int), (t0 + l / 1024) as u64, key, flags), key, flags)
            &&& sp_subtree_cv(x, t0, key, flags) == sp_out_cv(sp_subtree_out(x, t0, key, flags))
        }),
{
    let n = sp_num_chunks(x.len());
    lemma_lp2(n);
    let p = sp_lp2(n);
    lemma_chunk_cvs_split(x, t0, key, flags, p);
}

pub proof fn lemma_subtree_one_chunk(x: Seq<u8>, t0: u64, key: Seq<u32>, flags: u8)
    requires
        x.len() <= 1024,
    ensures
        sp_subtree_cv(x, t0, key, flags) == sp_chunk_cv(key, x, t0, flags),
        sp_subtree_cv(x, t0, key, flags) == sp_out_cv(sp_subtree_out(x, t0, key, flags)),
        sp_chunk_cvs(x, t0, key, flags) == seq![sp_chunk_cv(key, x, t0, flags)],
{
    assert(sp_chunk_bytes(x, 0) =~= x);
    assert(sp_chunk_cvs(x, t0, key, flags) =~= seq![sp_chunk_cv(key, x, t0, flags)]);
}

// pairwise of a concatenation whose first part has even length
pub proof fn lemma_pairwise_concat(a: Seq<SpCv>, b: Seq<SpCv>, key: Seq<u32>, flags: u8)
    requires
        a.len() % 2 == 0,
    ensures
        sp_pairwise(a + b, key, flags) == sp_pairwise(a, key, flags) + sp_pairwise(b, key, flags),
{
    let l = sp_pairwise(a + b, key, flags);
    let r = sp_pairwise(a, key, flags) + sp_pairwise(b, key, flags);
    assert(l.len() == r.len());
    assert forall|i: int| 0 <= i < l.len() implies l[i] == r[i] by {
        let h = (a.len() / 2) as int;
        if i < h {
            assert((a + b)[2 * i] == a[2 * i]);
            assert((a + b)[2 * i + 1] == a[2 * i + 1]);
        } else {
            assert((a + b)[2 * i] == b[2 * (i - h)]);
            if 2 * i + 1 < (a + b).len() {
                assert((a + b)[2 * i + 1] == b[2 * (i - h) + 1]);
            }
        }
    }
    assert(l =~= r);
}

// Lemma P: one layer of pairing does not change the tree chaining value
pub proof fn lemma_pairwise_tree(z: Seq<SpCv>, key: Seq<u32>, flags: u8)
    requires
        z.len() >= 2,
    ensures
        sp_tree_cv(sp_pairwise(z, key, flags), key, flags) == sp_tree_cv(z, key, flags),
    decreases z.len(),
{
    let n = z.len();
    lemma_lp2(n);
    let p = sp_lp2(n) as int;
    let a = z.subrange(0, p);
    let b = z.subrange(p, n as int);
    assert(z =~= a + b);
    if n == 2 {
        assert(a =~= seq![z[0]]);
        assert(b =~= seq![z[1]]);
        assert(sp_pairwise(z, key, flags) =~= seq![sp_parent_cv(z[0], z[1], key, flags)]);
        assert(sp_tree_cv(a, key, flags) == z[0]);
        assert(sp_tree_cv(b, key, flags) == z[1]);
        assert(sp_tree_cv(z, key, flags) == sp_parent_cv(z[0], z[1], key, flags));
    } else {
        // p >= 2 is even
        lemma_pow2_half(p);
        lemma_pairwise_concat(a, b, key, flags);
        let pa = sp_pairwise(a, key, flags);
        let pb = sp_pairwise(b, key, flags);
        let pz = sp_pairwise(z, key, flags);
        assert(pz == pa + pb);
        assert(pa.len() == p / 2);
        assert(1 <= pb.len() <= p / 2);
        lemma_lp2_concat((p / 2) as nat, pb.len());
        assert(sp_lp2(pz.len()) == p / 2);
        assert(pz.subrange(0, p / 2) =~= pa);
        assert(pz.subrange(p / 2, pz.len() as int) =~= pb);
        lemma_pairwise_tree(a, key, flags);
        if b.len() >= 2 {
            lemma_pairwise_tree(b, key, flags);
        } else {
            assert(pb =~= b);
        }
        assert(sp_tree_cv(pz, key, flags) == sp_parent_cv(sp_tree_cv(pa, key, flags), sp_tree_cv(pb, key, flags), key, flags));
        assert(sp_tree_cv(z, key, flags) == sp_parent_cv(sp_tree_cv(a, key, flags), sp_tree_cv(b, key, flags), key, flags));
    }
}

// "halves": the first lp2(|z|) CVs hash the left part of x, the others the right part
pub open spec fn sp_halves(z: Seq<SpCv>, x: Seq<u8>, t0: u64, key: Seq<u32>, flags: u8) -> bool {
    let p = sp_lp2(z.len()) as int;
    let l = sp_left_len(x.len()) as int;
    &&& z.len() >= 2
    &&& x.len() > 1024
    &&& sp_tree_cv(z.subrange(0, p), key, flags) == sp_subtree_cv(x.subrange(0, l), t0, key, flags)
    &&& sp_tree_cv(z.subrange(p, z.len() as int), key, flags)
            == sp_subtree_cv(x.subrange(l, x.len() as int), (t0 + l / 1024) as u64, key, flags)
}

// what a list of CVs returned for the bytes x must satisfy
#[verifier::opaque]
pub open spec fn sp_covers(z: Seq<SpCv>, x: Seq<u8>, t0: u64, key: Seq<u32>, flags: u8) -> bool {
    if z.len() == 1 {
        x.len() <= 1024 && z[0] == sp_subtree_cv(x, t0, key, flags)
    } else {
        sp_halves(z, x, t0, key, flags)
    }
}

pub proof fn lemma_covers_tree(z: Seq<SpCv>, x: Seq<u8>, t0: u64, key: Seq<u32>, flags: u8)
    requires
        z.len() >= 1,
        sp_covers(z, x, t0, key, flags),
        t0 + sp_num_chunks(x.len()) <= 0x1_0000_0000_0000_0000,
    ensures
        sp_tree_cv(z, key, flags) == sp_subtree_cv(x, t0, key, flags),
{
    reveal(sp_covers);
    if z.len() >= 2 {
        lemma_lp2(z.len());
        lemma_subtree_split(x, t0, key, flags);
    }
}

// the chunk CVs of more than one chunk satisfy halves
pub proof fn lemma_chunk_cvs_cover(x: Seq<u8>, t0: u64, key: Seq<u32>, flags: u8)
    requires
        t0 + sp_num_chunks(x.len()) <= 0x1_0000_0000_0000_0000,
    ensures
        sp_covers(sp_chunk_cvs(x, t0, key, flags), x, t0, key, flags),
{
    reveal(sp_covers);
    let n = sp_num_chunks(x.len());
    if n >= 2 {
        lemma_lp2(n);
        lemma_chunk_cvs_split(x, t0, key, flags, sp_lp2(n));
    } else {
        lemma_subtree_one_chunk(x, t0, key, flags);
    }
}

// ---- byte buffers holding n consecutive 32-byte chaining values --------------------------------
pub open spec fn sp_cvs_of(buf: Seq<u8>, n: int) -> Seq<SpCv> {
    Seq::new(n as nat, |i: int| buf.subrange(32 * i, 32 * i + 32))
}

pub proof fn lemma_cvs_of_concat(a: Seq<u8>, b: Seq<u8>, n: int, m: int)
    requires
        0 <= n, 0 <= m,
        a.len() == 32 * n,
        b.len() >= 32 * m,
    ensures
        sp_cvs_of(a + b, n + m) == sp_cvs_of(a, n) + sp_cvs_of(b, m),
{
    let l = sp_cvs_of(a + b, n + m);
    let r = sp_cvs_of(a, n) + sp_cvs_of(b, m);
    assert forall|i: int| 0 <= i < n + m implies l[i] == r[i] by {
        if i < n {
            assert((a + b).subrange(32 * i, 32 * i + 32) =~= a.subrange(32 * i, 32 * i + 32));
        } else {
            assert((a + b).subrange(32 * i, 32 * i + 32) =~= b.subrange(32 * (i - n), 32 * (i - n) + 32));
        }
    }
    assert(l =~= r);
}

// ---- kernels' per-input function vs chunk / parent chaining values ----------------------------
pub proof fn lemma_hash1_fold_is_chunk_fold(key: Seq<u32>, c: Seq<u8>, nb: nat, t: u64, flags: u8)
    requires
        nb < 16,
    ensures
        sp_hash1_fold(key, c, nb, 16, t, flags, SP_CHUNK_START, SP_CHUNK_END) == sp_chunk_fold(key, c, nb, t, flags),
    decreases nb,
{
    if nb > 0 {
        lemma_hash1_fold_is_chunk_fold(key, c, (nb - 1) as nat, t, flags);
    }
}

pub proof fn lemma_hash1_is_chunk_cv(c: Seq<u8>, key: Seq<u32>, t: u64, flags: u8)
    requires
        c.len() == 1024,
    ensures
        sp_hash1(c, key, t, flags, SP_CHUNK_START, SP_CHUNK_END) == sp_chunk_cv(key, c, t, flags),
{
    lemma_hash1_fold_is_chunk_fold(key, c, 15, t, flags);
    assert(sp_blocks_before_last(1024) == 15);
    assert(sp_pad64(c.subrange(960, 1024)) =~= c.subrange(960, 1024));
    assert(c.subrange(64 * (16 - 1), 64 * (16 as int)) == c.subrange(960, 1024));
}

pub proof fn lemma_hash1_is_parent_cv(l: Seq<u8>, r: Seq<u8>, key: Seq<u32>, flags: u8)
    requires
        l.len() == 32,
        r.len() == 32,
    ensures
        sp_hash1(l + r, key, 0, (flags | SP_PARENT) as u8, 0, 0) == sp_parent_cv(l, r, key, flags),
{
    let f = (flags | SP_PARENT) as u8;
    assert((f | 0u8) | 0u8 == f) by (bit_vector);
    assert((l + r).subrange(0, 64) =~= l + r);
    reveal_with_fuel(sp_hash1_fold, 2);
}

// ---- powers of two --------------------------------------------------------------------------------
pub proof fn lemma_pow2_1024(r: int)
    requires
        sp_is_pow2(r),
        r >= 1024,
    ensures
        r % 1024 == 0,
        sp_is_pow2(r / 1024),
{
    lemma_pow2_half(r);
    let r1 = r / 2;
    lemma_pow2_half(r1);
    let r2 = r1 / 2;
    lemma_pow2_half(r2);
    let r3 = r2 / 2;
    lemma_pow2_half(r3);
    let r4 = r3 / 2;
    lemma_pow2_half(r4);
    let r5 = r4 / 2;
    lemma_pow2_half(r5);
    let r6 = r5 / 2;
    lemma_pow2_half(r6);
    let r7 = r6 / 2;
    lemma_pow2_half(r7);
    let r8 = r7 / 2;
    lemma_pow2_half(r8);
    let r9 = r8 / 2;
    lemma_pow2_half(r9);
    let r10 = r9 / 2;
    assert(r == 1024 * r10);
}

pub proof fn lemma_lp2_of_pow2(m: nat)
    requires
        sp_is_pow2(m as int),
        m >= 2,
    ensures
        sp_lp2(m) == m / 2,
        m % 2 == 0,
{
    lemma_pow2_half(m as int);
    lemma_lp2_unique(m, (m / 2) as int);
}

// r is a power of two with r < n <= 2r (n > 1024 bytes)  ==>  r is the spec's left length
pub proof fn lemma_left_len(n: nat, r: int)
    requires
        n > 1024,
        sp_is_pow2(r),
        r < n,
        n <= 2 * r,
    ensures
        r == sp_left_len(n),
        r >= 1024,
        r % 1024 == 0,
{
    lemma_pow2_basic();
    assert(sp_is_pow2(512)) by { reveal_with_fuel(sp_is_pow2, 12); }
    lemma_pow2_gap(512, r);
    lemma_pow2_1024(r);
    let m = r / 1024;
    let nc = sp_num_chunks(n);
    lemma_lp2_unique(nc, m);
}

// ---- how many chaining values compress_subtree_wide returns ---------------------------------------
pub open spec fn sp_wide_n(len: nat, d: nat) -> nat
    decreases len,
{
    if len <= 1024 * d || len <= 1024 {
        sp_num_chunks(len)
    } else {
        let l = sp_left_len(len);
        if 0 < l < len {
            let a = sp_wide_n(l, d);
            let b = sp_wide_n((len - l) as nat, d);
            if a == 1 { 2 } else { ((a + b + 1) / 2) as nat }
        } else {
            0
        }
    }
}

pub open spec fn sp_max2(d: nat) -> nat {
    if d < 2 { 2 } else { d }
}

pub proof fn lemma_left_len_bounds(len: nat)
    requires
        len > 1024,
    ensures
        1024 <= sp_left_len(len) < len,
        len <= 2 * sp_left_len(len),
        sp_left_len(len) % 1024 == 0,
        sp_is_pow2(sp_lp2(sp_num_chunks(len)) as int),
{
    lemma_lp2(sp_num_chunks(len));
}

pub proof fn lemma_wide_n_bounds(len: nat, d: nat)
    requires
        len >= 1,
        sp_is_pow2(d as int),
    ensures
        1 <= sp_wide_n(len, d) <= sp_max2(d),
        len > 1024 ==> sp_wide_n(len, d) >= 2,
        len <= 1024 ==> sp_wide_n(len, d) == 1,
    decreases len,
{
    if len <= 1024 * d || len <= 1024 {
    } else {
        lemma_left_len_bounds(len);
        let l = sp_left_len(len);
        lemma_wide_n_bounds(l, d);
        lemma_wide_n_bounds((len - l) as nat, d);
    }
}

pub proof fn lemma_wide_n_pow2(m: nat, d: nat)
    requires
        sp_is_pow2(m as int),
        sp_is_pow2(d as int),
        m >= d,
    ensures
        sp_wide_n(1024 * m, d) == (if m == 1 { 1 } else { sp_max2(d) }),
    decreases m,
{
    let len = 1024 * m;
    if m <= d {
        assert(sp_num_chunks(len) == m);
    } else {
        lemma_pow2_gap(d as int, m as int);
        lemma_lp2_of_pow2(m);
        assert(sp_num_chunks(len) == m);
        assert(sp_left_len(len) == 1024 * (m / 2));
        lemma_pow2_half(m as int);
        lemma_wide_n_pow2(m / 2, d);
        assert((len - 1024 * (m / 2)) as nat == 1024 * (m / 2));
    }
}

// facts about the split of an input longer than d chunks
pub proof fn lemma_wide_split_counts(len: nat, d: nat)
    requires
        sp_is_pow2(d as int),
        len > 1024 * d,
        len > 1024,
    ensures
        ({
            let l = sp_left_len(len);
            &&& 1024 <= l < len <= 2 * l
            &&& l % 1024 == 0
            &&& sp_num_chunks(l) == sp_lp2(sp_num_chunks(len))
            &&& sp_num_chunks((len - l) as nat) == sp_num_chunks(len) - sp_lp2(sp_num_chunks(len))
            &&& sp_wide_n(l, d) == (if l == 1024 { 1 } else { sp_max2(d) })
            &&& (l == 1024 ==> d == 1 && len <= 2048)
            &&& 1 <= sp_wide_n((len - l) as nat, d) <= sp_wide_n(l, d)
            &&& sp_wide_n(len, d) == (if sp_wide_n(l, d) == 1 { 2 } else { (sp_wide_n(l, d) + sp_wide_n((len - l) as nat, d) + 1) / 2 })
        }),
{
    let nc = sp_num_chunks(len);
    lemma_left_len_bounds(len);
    lemma_lp2(nc);
    let l = sp_left_len(len);
    if sp_lp2(nc) < d { lemma_pow2_gap(sp_lp2(nc) as int, d as int); }
    lemma_wide_n_pow2(sp_lp2(nc), d);
    lemma_wide_n_bounds((len - l) as nat, d);
    assert(sp_num_chunks(l) == sp_lp2(nc));
}

// The recursive step of the "wide" subtree hashing, case of a single CV on each side.
pub proof fn lemma_wide_step_one(x: Seq<u8>, t0: u64, key: Seq<u32>, flags: u8, xs: Seq<SpCv>, ys: Seq<SpCv>)
    requires
        1024 < x.len() <= 2048,
        t0 + 2 <= 0x1_0000_0000_0000_0000,
        xs.len() == 1, ys.len() == 1,
        sp_covers(xs, x.subrange(0, 1024), t0, key, flags),
        sp_covers(ys, x.subrange(1024, x.len() as int), (t0 + 1) as u64, key, flags),
    ensures
        sp_covers(xs + ys, x, t0, key, flags),
{
    reveal(sp_covers);
    let z = xs + ys;
    assert(sp_num_chunks(x.len()) == 2);
    assert(sp_lp2(2) == 1);
    assert(sp_left_len(x.len()) == 1024);
    assert(z.subrange(0, 1) =~= xs);
    assert(z.subrange(1, 2) =~= ys);
}

// ... case of at least two CVs on the left (an even power of two), between 1 and that many on the right
pub proof fn lemma_wide_step_many(x: Seq<u8>, t0: u64, key: Seq<u32>, flags: u8, xs: Seq<SpCv>, ys: Seq<SpCv>)
    requires
        x.len() > 1024,
        t0 + sp_num_chunks(x.len()) <= 0x1_0000_0000_0000_0000,
        sp_is_pow2(xs.len() as int), xs.len() >= 2,
        1 <= ys.len() <= xs.len(),
        sp_covers(xs, x.subrange(0, sp_left_len(x.len()) as int), t0, key, flags),
        sp_covers(ys, x.subrange(sp_left_len(x.len()) as int, x.len() as int),
            (t0 + sp_left_len(x.len()) / 1024) as u64, key, flags),
    ensures
        sp_covers(sp_pairwise(xs + ys, key, flags), x, t0, key, flags),
{
    reveal(sp_covers);
    let len = x.len();
    let nc = sp_num_chunks(len);
    lemma_left_len_bounds(len);
    let l = sp_left_len(len) as int;
    let left = x.subrange(0, l);
    let right = x.subrange(l, len as int);
    let t1 = (t0 + l / 1024) as u64;
    lemma_chunk_cvs_split(x, t0, key, flags, sp_lp2(nc));
    lemma_pow2_half(xs.len() as int);
    lemma_pairwise_concat(xs, ys, key, flags);
    let px = sp_pairwise(xs, key, flags);
    let py = sp_pairwise(ys, key, flags);
    let z = sp_pairwise(xs + ys, key, flags);
    assert(z == px + py);
    assert(px.len() == xs.len() / 2);
    assert(1 <= py.len() <= px.len());
    lemma_lp2_concat(px.len(), py.len());
    assert(z.subrange(0, px.len() as int) =~= px);
    assert(z.subrange(px.len() as int, z.len() as int) =~= py);
    lemma_pairwise_tree(xs, key, flags);
    lemma_covers_tree(xs, left, t0, key, flags);
    lemma_covers_tree(ys, right, t1, key, flags);
    if ys.len() >= 2 {
        lemma_pairwise_tree(ys, key, flags);
    } else {
        assert(py =~= ys);
    }
}

// pairing a covering list of more than two CVs gives a covering list
pub proof fn lemma_pairwise_covers(z: Seq<SpCv>, x: Seq<u8>, t0: u64, key: Seq<u32>, flags: u8)
    requires
        z.len() > 2,
        sp_covers(z, x, t0, key, flags),
    ensures
        sp_covers(sp_pairwise(z, key, flags), x, t0, key, flags),
{
    reveal(sp_covers);
    let n = z.len();
    lemma_lp2(n);
    let p = sp_lp2(n) as int;
    let a = z.subrange(0, p);
    let b = z.subrange(p, n as int);
    assert(z =~= a + b);
    lemma_pow2_half(p);
    lemma_pairwise_concat(a, b, key, flags);
    let pa = sp_pairwise(a, key, flags);
    let pb = sp_pairwise(b, key, flags);
    let pz = sp_pairwise(z, key, flags);
    assert(pz == pa + pb);
    lemma_lp2_concat(pa.len(), pb.len());
    assert(pz.subrange(0, pa.len() as int) =~= pa);
    assert(pz.subrange(pa.len() as int, pz.len() as int) =~= pb);
    lemma_pairwise_tree(a, key, flags);
    if b.len() >= 2 {
        lemma_pairwise_tree(b, key, flags);
    } else {
        assert(pb =~= b);
    }
}

// a covering list of exactly two CVs is the pair of child chaining values
pub proof fn lemma_covers_two(z: Seq<SpCv>, x: Seq<u8>, t0: u64, key: Seq<u32>, flags: u8)
    requires
        z.len() == 2,
        sp_covers(z, x, t0, key, flags),
    ensures
        ({
            let l = sp_left_len(x.len()) as int;
            &&& z[0] == sp_subtree_cv(x.subrange(0, l), t0, key, flags)
            &&& z[1] == sp_subtree_cv(x.subrange(l, x.len() as int), (t0 + l / 1024) as u64, key, flags)
        }),
{
    reveal(sp_covers);
    assert(sp_lp2(2) == 1);
    assert(z.subrange(0, 1) =~= seq![z[0]]);
    assert(z.subrange(1, 2) =~= seq![z[1]]);
}

// ---- composition of subtrees (hazmat): every decomposition that splits at left_len reproduces the tree -----
pub enum SpDecomp {
    Leaf,                                   // a subtree hashed as a whole (by one hasher, any update sequence)
    Node(Box<SpDecomp>, Box<SpDecomp>),     // split at sp_left_len, children merged with merge_subtrees_non_root
}

pub open spec fn sp_decomp_valid(d: SpDecomp, len: nat) -> bool
    decreases d,
{
    match d {
        SpDecomp::Leaf => len > 0,
        SpDecomp::Node(l, r) => len > 1024 && sp_decomp_valid(*l, sp_left_len(len))
            && sp_decomp_valid(*r, (len - sp_left_len(len)) as nat),
    }
}

// what the caller computes: leaves are subtree chaining values, nodes are merge_subtrees_non_root
pub open spec fn sp_decomp_cv(d: SpDecomp, x: Seq<u8>, t0: u64, key: Seq<u32>, flags: u8) -> SpCv
    decreases d,
{
    match d {
        SpDecomp::Leaf => sp_subtree_cv(x, t0, key, flags),
        SpDecomp::Node(l, r) => {
            let ll = sp_left_len(x.len()) as int;
            sp_parent_cv(
                sp_decomp_cv(*l, x.subrange(0, ll), t0, key, flags),
                sp_decomp_cv(*r, x.subrange(ll, x.len() as int), (t0 + ll / 1024) as u64, key, flags),
                key, flags)
        },
    }
}

pub proof fn lemma_decomp(d: SpDecomp, x: Seq<u8>, t0: u64, key: Seq<u32>, flags: u8)
    requires
        sp_decomp_valid(d, x.len()),
        t0 + sp_num_chunks(x.len()) <= 0x1_0000_0000_0000_0000,
    ensures
        sp_decomp_cv(d, x, t0, key, flags) == sp_subtree_cv(x, t0, key, flags),
    decreases d,
{
    match d {
        SpDecomp::Leaf => {},
        SpDecomp::Node(l, r) => {
            lemma_subtree_split(x, t0, key, flags);
            lemma_lp2(sp_num_chunks(x.len()));
            let ll = sp_left_len(x.len()) as int;
            lemma_chunk_cvs_split(x, t0, key, flags, sp_lp2(sp_num_chunks(x.len())));
            lemma_decomp(*l, x.subrange(0, ll), t0, key, flags);
            lemma_decomp(*r, x.subrange(ll, x.len() as int), (t0 + ll / 1024) as u64, key, flags);
        },
    }
}

// the root: merge_subtrees_root / merge_subtrees_root_xof of the two top-level chaining values
pub proof fn lemma_decomp_root(l: SpDecomp, r: SpDecomp, x: Seq<u8>, key: Seq<u32>, flags: u8)
    requires
        x.len() > 1024,
        x.len() <= 0xffff_ffff_ffff_ffff,
        sp_decomp_valid(l, sp_left_len(x.len())),
        sp_decomp_valid(r, (x.len() - sp_left_len(x.len())) as nat),
    ensures
        ({
            let ll = sp_left_len(x.len()) as int;
            sp_parent_out(
                sp_decomp_cv(l, x.subrange(0, ll), 0, key, flags),
                sp_decomp_cv(r, x.subrange(ll, x.len() as int), (ll / 1024) as u64, key, flags),
                key, flags) == sp_root_out(x, key, flags)
        }),
{
    lemma_left_len_bounds(x.len());
    lemma_lp2(sp_num_chunks(x.len()));
    let ll = sp_left_len(x.len()) as int;
    lemma_chunk_cvs_split(x, 0, key, flags, sp_lp2(sp_num_chunks(x.len())));
    lemma_decomp(l, x.subrange(0, ll), 0, key, flags);
    lemma_decomp(r, x.subrange(ll, x.len() as int), (ll / 1024) as u64, key, flags);
}
