// ---------------------------------------------------------------------------------------------
// SPEC (C14): hexadecimal text form of a 32-byte hash, written from the property statement
// ("64 lowercase hex digits", "exactly the 64-character strings over 0-9, a-f, A-F").
// Nothing here is taken from the code; the lemmas at the end are proved, not assumed.
// ---------------------------------------------------------------------------------------------

// ASCII: '0'..'9' = 0x30..0x39, 'A'..'F' = 0x41..0x46, 'a'..'f' = 0x61..0x66
pub open spec fn sp_is_hex(b: u8) -> bool {
    (0x30 <= b && b <= 0x39) || (0x41 <= b && b <= 0x46) || (0x61 <= b && b <= 0x66)
}

// value of a hex digit (meaningful only under sp_is_hex)
pub open spec fn sp_hex_val(b: u8) -> int {
    if 0x30 <= b && b <= 0x39 {
        b - 0x30
    } else if 0x41 <= b && b <= 0x46 {
        b - 0x41 + 10
    } else {
        b - 0x61 + 10
    }
}

// the lowercase digit of a nibble 0..15
pub open spec fn sp_lower_hex_digit(n: u8) -> char {
    if n < 10 {
        ((0x30 + n) as u8) as char
    } else {
        ((0x61 + (n - 10)) as u8) as char
    }
}

// to_hex / Display: 2 characters per byte, high nibble first
pub open spec fn sp_hex_lower(b: Seq<u8>) -> Seq<char> {
    Seq::new(
        2 * b.len(),
        |k: int|
            if k % 2 == 0 {
                sp_lower_hex_digit(b[k / 2] >> 4)
            } else {
                sp_lower_hex_digit(b[k / 2] & 15)
            },
    )
}

// from_hex accepts exactly these inputs ...
pub open spec fn sp_hex_input_ok(hex: Seq<u8>) -> bool {
    hex.len() == 64 && forall|i: int| 0 <= i < 64 ==> sp_is_hex(#[trigger] hex[i])
}

// ... and then returns these 32 bytes
pub open spec fn sp_hex_decodes_to(hex: Seq<u8>, h: Seq<u8>) -> bool {
    h.len() == 32 && forall|i: int|
        0 <= i < 32 ==> (#[trigger] h[i]) as int == 16 * sp_hex_val(hex[2 * i]) + sp_hex_val(hex[2 * i + 1])
}

// the bytes of an ASCII string (what `AsRef<[u8]>`/`as_bytes` give for it)
pub open spec fn sp_ascii_bytes(s: Seq<char>) -> Seq<u8> {
    Seq::new(s.len(), |k: int| s[k] as u8)
}

pub proof fn lemma_nibble(n: u8)
    requires
        n < 16,
    ensures
        sp_is_hex(sp_lower_hex_digit(n) as u8),
        sp_hex_val(sp_lower_hex_digit(n) as u8) == n,
        (sp_lower_hex_digit(n) as u32) < 128,
        // lowercase: never an uppercase letter
        !(0x41 <= sp_lower_hex_digit(n) as u8 && sp_lower_hex_digit(n) as u8 <= 0x46),
{
}

pub proof fn lemma_byte_nibbles(b: u8)
    ensures
        (b >> 4) < 16,
        (b & 15) < 16,
        16 * (b >> 4) + (b & 15) == b,
{
    assert((b >> 4) < 16 && (b & 15) < 16 && 16 * (b >> 4) + (b & 15) == b) by (bit_vector);
}

// shape of to_hex's result, as the property words it
pub proof fn lemma_hex_lower_shape(b: Seq<u8>)
    requires
        b.len() == 32,
    ensures
        sp_hex_lower(b).len() == 64,
        forall|i: int|
            0 <= i < 32 ==> sp_hex_lower(b)[2 * i] == sp_lower_hex_digit(#[trigger] b[i] >> 4) && sp_hex_lower(b)[2 * i
                + 1] == sp_lower_hex_digit(b[i] & 15),
        forall|k: int| 0 <= k < 64 ==> (#[trigger] sp_hex_lower(b)[k] as u32) < 128,
{
    assert forall|i: int| 0 <= i < 32 implies sp_hex_lower(b)[2 * i] == sp_lower_hex_digit(#[trigger] b[i] >> 4)
        && sp_hex_lower(b)[2 * i + 1] == sp_lower_hex_digit(b[i] & 15) by {
        assert((2 * i) % 2 == 0 && (2 * i) / 2 == i && (2 * i + 1) % 2 == 1 && (2 * i + 1) / 2 == i);
    }
    assert forall|k: int| 0 <= k < 64 implies (#[trigger] sp_hex_lower(b)[k] as u32) < 128 by {
        lemma_byte_nibbles(b[k / 2]);
        lemma_nibble(b[k / 2] >> 4);
        lemma_nibble(b[k / 2] & 15);
    }
}

// ROUND TRIP (over the two contracts): whatever to_hex(h) returns is accepted by from_hex, and every
// value from_hex may return for it is h again.
pub proof fn lemma_hex_round_trip(b: Seq<u8>)
    requires
        b.len() == 32,
    ensures
        sp_hex_input_ok(sp_ascii_bytes(sp_hex_lower(b))),
        forall|h: Seq<u8>| sp_hex_decodes_to(sp_ascii_bytes(sp_hex_lower(b)), h) ==> h == b,
        // and for a str holding those characters, `as_bytes` (UTF-8) is the same byte string
        vstd::utf8::encode_utf8(sp_hex_lower(b)) == sp_ascii_bytes(sp_hex_lower(b)),
{
    let t = sp_hex_lower(b);
    let x = sp_ascii_bytes(t);
    lemma_hex_lower_shape(b);
    assert forall|k: int| 0 <= k < 64 implies sp_is_hex(#[trigger] x[k]) by {
        lemma_byte_nibbles(b[k / 2]);
        lemma_nibble(b[k / 2] >> 4);
        lemma_nibble(b[k / 2] & 15);
    }
    assert forall|h: Seq<u8>| sp_hex_decodes_to(x, h) implies h == b by {
        assert forall|i: int| 0 <= i < 32 implies h[i] == b[i] by {
            lemma_byte_nibbles(b[i]);
            lemma_nibble(b[i] >> 4);
            lemma_nibble(b[i] & 15);
            assert(x[2 * i] == sp_lower_hex_digit(b[i] >> 4) as u8);
            assert(x[2 * i + 1] == sp_lower_hex_digit(b[i] & 15) as u8);
        }
        assert(h =~= b);
    }
    vstd::utf8::is_ascii_chars_encode_utf8(t);
    assert(vstd::utf8::encode_utf8(t) =~= x);
}
