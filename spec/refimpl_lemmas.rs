// ---------------------------------------------------------------------------------------------
// Lemmas used by the unit `refimpl` (reference_impl/reference_impl.rs against the specification of
// blake3_spec.rs / tree_spec.rs). Everything here is PROVED (no assumptions); nothing in this file
// changes a specification function.
//   1. little-endian words <-> bytes round trips
//   2. the message permutation applied r times is the spec's index schedule sp_sched(r)
//   3. 32-bit flag words vs. the spec's 8-bit flags
//   4. the eager chaining-value stack of reference_impl::Hasher (binary digits of the chunk count)
// ---------------------------------------------------------------------------------------------

// ---- 1. words <-> bytes ------------------------------------------------------------------------
pub proof fn lemma_le32_roundtrip(w: u32)
    ensures
        sp_le32(sp_u32_le(w)) == w,
{
    assert((((w & 0xff) as u8) as u32) | ((((w >> 8) & 0xff) as u8) as u32) << 8
        | ((((w >> 16) & 0xff) as u8) as u32) << 16 | ((((w >> 24) & 0xff) as u8) as u32) << 24 == w) by (bit_vector);
}

pub proof fn lemma_u32_le_roundtrip(b0: u8, b1: u8, b2: u8, b3: u8)
    ensures
        sp_u32_le(sp_le32(seq![b0, b1, b2, b3])) == seq![b0, b1, b2, b3],
{
    let w = (b0 as u32) | ((b1 as u32) << 8) | ((b2 as u32) << 16) | ((b3 as u32) << 24);
    assert(((w & 0xff) as u8) == b0 && (((w >> 8) & 0xff) as u8) == b1 && (((w >> 16) & 0xff) as u8) == b2
        && (((w >> 24) & 0xff) as u8) == b3) by (bit_vector)
        requires
            w == (b0 as u32) | ((b1 as u32) << 8) | ((b2 as u32) << 16) | ((b3 as u32) << 24),
    ;
    assert(sp_u32_le(w) =~= seq![b0, b1, b2, b3]);
}

pub proof fn lemma_words_of_bytes(w: Seq<u32>)
    ensures
        sp_words(sp_bytes(w)) == w,
{
    let b = sp_bytes(w);
    assert forall|i: int| 0 <= i < w.len() implies sp_words(b)[i] == w[i] by {
        lemma_le32_roundtrip(w[i]);
        assert(b.subrange(4 * i, 4 * i + 4) =~= sp_u32_le(w[i]));
    }
    assert(sp_words(b) =~= w);
}

pub proof fn lemma_bytes_of_words(b: Seq<u8>)
    requires
        b.len() % 4 == 0,
    ensures
        sp_bytes(sp_words(b)) == b,
{
    let w = sp_words(b);
    assert forall|k: int| 0 <= k < b.len() implies sp_bytes(w)[k] == b[k] by {
        let i = k / 4;
        let q = b.subrange(4 * i, 4 * i + 4);
        lemma_u32_le_roundtrip(q[0], q[1], q[2], q[3]);
        assert(q =~= seq![q[0], q[1], q[2], q[3]]);
    }
    assert(sp_bytes(w) =~= b);
}

pub proof fn lemma_bytes_concat(a: Seq<u32>, b: Seq<u32>)
    ensures
        sp_bytes(a + b) == sp_bytes(a) + sp_bytes(b),
{
    assert(sp_bytes(a + b) =~= sp_bytes(a) + sp_bytes(b));
}

// ---- 2. iterated message permutation -----------------------------------------------------------
// mr is the message m0 after r applications of the paper's permutation
pub open spec fn sp_permuted(m0: Seq<u32>, mr: Seq<u32>, r: nat) -> bool {
    &&& mr.len() == 16
    &&& forall|i: int| 0 <= i < 16 ==> #[trigger] mr[i] == m0[sp_sched(r)[i]]
}

pub proof fn lemma_permuted_zero(m0: Seq<u32>)
    requires
        m0.len() == 16,
    ensures
        sp_permuted(m0, m0, 0),
{
}

// one more application: mn[i] == mr[PERM[i]]
pub proof fn lemma_permuted_step(m0: Seq<u32>, mr: Seq<u32>, mn: Seq<u32>, r: nat)
    requires
        sp_permuted(m0, mr, r),
        mn.len() == 16,
        forall|i: int| 0 <= i < 16 ==> #[trigger] mn[i] == mr[sp_perm()[i]],
    ensures
        sp_permuted(m0, mn, r + 1),
{
    assert forall|i: int| 0 <= i < 16 implies #[trigger] mn[i] == m0[sp_sched(r + 1)[i]] by {
        let p = sp_perm()[i];
        assert(0 <= p < 16);
        assert(mr[p] == m0[sp_sched(r)[p]]);
        assert(sp_sched(r + 1)[i] == sp_sched(r)[p]);
    }
}

// a round over the permuted message with the identity schedule is the spec's round r
pub proof fn lemma_round_permuted(s: Seq<u32>, m0: Seq<u32>, mr: Seq<u32>, r: nat)
    requires
        sp_permuted(m0, mr, r),
    ensures
        sp_round(s, mr, sp_sched(0)) == sp_round(s, m0, sp_sched(r)),
{
    reveal(sp_round);
    let id = sp_sched(0);
    assert(id[0] == 0 && id[1] == 1 && id[2] == 2 && id[3] == 3 && id[4] == 4 && id[5] == 5 && id[6] == 6 && id[7] == 7
        && id[8] == 8 && id[9] == 9 && id[10] == 10 && id[11] == 11 && id[12] == 12 && id[13] == 13 && id[14] == 14
        && id[15] == 15);
    assert(mr[0] == m0[sp_sched(r)[0]] && mr[1] == m0[sp_sched(r)[1]] && mr[2] == m0[sp_sched(r)[2]]
        && mr[3] == m0[sp_sched(r)[3]] && mr[4] == m0[sp_sched(r)[4]] && mr[5] == m0[sp_sched(r)[5]]
        && mr[6] == m0[sp_sched(r)[6]] && mr[7] == m0[sp_sched(r)[7]] && mr[8] == m0[sp_sched(r)[8]]
        && mr[9] == m0[sp_sched(r)[9]] && mr[10] == m0[sp_sched(r)[10]] && mr[11] == m0[sp_sched(r)[11]]
        && mr[12] == m0[sp_sched(r)[12]] && mr[13] == m0[sp_sched(r)[13]] && mr[14] == m0[sp_sched(r)[14]]
        && mr[15] == m0[sp_sched(r)[15]]);
}

// ---- 3. 32-bit flags --------------------------------------------------------------------------
pub proof fn lemma_flags32()
    ensures
        forall|f: u32| f < 256 ==> #[trigger] ((f as u8) as u32) == f,
        forall|f: u32, g: u8| f < 256 ==> #[trigger] (((f as u8) | g) as u32) == f | (g as u32),
        forall|f: u32, g: u8| f < 256 ==> #[trigger] (f | (g as u32)) < 256,
        forall|f: u32, g: u8| #[trigger] ((f | (g as u32)) as u8) == (f as u8) | g,
        forall|f: u32| #[trigger] (f | 0u32) == f,
        forall|f: u8| #[trigger] (f | 0u8) == f,
        forall|f: u8, g: u8| #[trigger] (f | g) == g | f,
        forall|f: u32, g: u32| #[trigger] (f | g) == g | f,
{
    assert(forall|f: u32| f < 256 ==> #[trigger] ((f as u8) as u32) == f) by (bit_vector);
    assert(forall|f: u32, g: u8| f < 256 ==> #[trigger] (((f as u8) | g) as u32) == f | (g as u32)) by (bit_vector);
    assert(forall|f: u32, g: u8| f < 256 ==> #[trigger] (f | (g as u32)) < 256) by (bit_vector);
    assert(forall|f: u32, g: u8| #[trigger] ((f | (g as u32)) as u8) == (f as u8) | g) by (bit_vector);
    assert(forall|f: u32| #[trigger] (f | 0u32) == f) by (bit_vector);
    assert(forall|f: u8| #[trigger] (f | 0u8) == f) by (bit_vector);
    assert(forall|f: u8, g: u8| #[trigger] (f | g) == g | f) by (bit_vector);
    assert(forall|f: u32, g: u32| #[trigger] (f | g) == g | f) by (bit_vector);
}

// ---- chunk fold ---------------------------------------------------------------------------------
// extending the chunk bytes does not change the fold over the blocks already compressed
pub proof fn lemma_ref_chunk_fold_prefix(k: Seq<u32>, c: Seq<u8>, d: Seq<u8>, nb: nat, t: u64, flags: u8)
    requires
        64 * nb <= c.len(),
    ensures
        sp_chunk_fold(k, c + d, nb, t, flags) == sp_chunk_fold(k, c, nb, t, flags),
    decreases nb,
{
    if nb > 0 {
        lemma_ref_chunk_fold_prefix(k, c, d, (nb - 1) as nat, t, flags);
        assert((c + d).subrange(64 * (nb - 1), 64 * (nb as int)) =~= c.subrange(64 * (nb - 1), 64 * (nb as int)));
    }
}

// ---- 4. the eager chaining-value stack ---------------------------------------------------------
// chaining value of the complete subtree over the u chunks [a, a + u) of m
pub open spec fn sp_unit_cv(m: Seq<u8>, a: nat, u: nat, key: Seq<u32>, flags: u8) -> SpCv {
    sp_subtree_cv(m.subrange(1024 * (a as int), 1024 * ((a + u) as int)), a as u64, key, flags)
}

// The stack after tu complete units of u chunks each (u a power of two; the hasher itself has u == 1):
// one entry per set binary digit of tu, largest subtree first. An odd tu has the last unit on top,
// everything below it is the stack of tu / 2 units of twice the size.
pub open spec fn sp_estack(m: Seq<u8>, tu: nat, u: nat, key: Seq<u32>, flags: u8) -> Seq<SpCv>
    decreases tu,
{
    if tu == 0 {
        Seq::empty()
    } else if tu % 2 == 0 {
        sp_estack(m, tu / 2, 2 * u, key, flags)
    } else {
        sp_estack(m, tu / 2, 2 * u, key, flags).push(sp_unit_cv(m, (u * (tu - 1)) as nat, u, key, flags))
    }
}

// folding parent nodes from the top of the stack down, starting from the node `out` on the right edge
pub open spec fn sp_efold(stack: Seq<SpCv>, out: SpOut, key: Seq<u32>, flags: u8) -> SpOut
    decreases stack.len(),
{
    if stack.len() == 0 {
        out
    } else {
        sp_efold(stack.drop_last(), sp_parent_out(stack.last(), sp_out_cv(out), key, flags), key, flags)
    }
}

pub proof fn lemma_popcount_step(x: u64)
    ensures
        x % 2 == 0 ==> sp_popcount64(x) == sp_popcount64(x / 2),
        x % 2 == 1 ==> sp_popcount64(x) == 1 + sp_popcount64(x / 2),
        (x & 1 == 0) <==> x % 2 == 0,
        x >> 1 == x / 2,
{
    assert(x & 1 == x % 2) by (bit_vector);
    assert(x >> 1 == x / 2) by (bit_vector);
}

pub open spec fn sp_pow2n(k: nat) -> nat
    decreases k,
{
    if k == 0 { 1 } else { 2 * sp_pow2n((k - 1) as nat) }
}

pub proof fn lemma_popcount_bound(x: u64, k: nat)
    requires
        x < sp_pow2n(k),
    ensures
        sp_popcount64(x) <= k,
    decreases k,
{
    lemma_popcount_step(x);
    if k == 0 {
    } else if x != 0 {
        lemma_popcount_bound(x / 2, (k - 1) as nat);
    }
}

pub proof fn lemma_popcount_54(x: u64)
    requires
        x < 0x40_0000_0000_0000,
    ensures
        sp_popcount64(x) <= 54,
{
    assert(sp_pow2n(54) == 0x40_0000_0000_0000) by (compute);
    lemma_popcount_bound(x, 54);
}

pub proof fn lemma_estack_len(m: Seq<u8>, tu: nat, u: nat, key: Seq<u32>, flags: u8)
    requires
        tu <= u64::MAX,
    ensures
        sp_estack(m, tu, u, key, flags).len() == sp_popcount64(tu as u64),
    decreases tu,
{
    lemma_popcount_step(tu as u64);
    if tu != 0 {
        lemma_estack_len(m, tu / 2, 2 * u, key, flags);
    }
}

// the stack only looks at the first 1024 * u * tu bytes
pub proof fn lemma_estack_frame(m: Seq<u8>, x: Seq<u8>, tu: nat, u: nat, key: Seq<u32>, flags: u8)
    requires
        1024 * (u * tu) <= m.len(),
    ensures
        sp_estack(m + x, tu, u, key, flags) == sp_estack(m, tu, u, key, flags),
    decreases tu,
{
    if tu != 0 {
        assert((2 * u) * (tu / 2) <= u * tu) by (nonlinear_arith)
            requires tu >= 0, u >= 0;
        lemma_estack_frame(m, x, tu / 2, 2 * u, key, flags);
        if tu % 2 == 1 {
            let a = u * (tu - 1);
            assert(a + u == u * tu && a >= 0) by (nonlinear_arith)
                requires a == u * (tu - 1), tu >= 1, u >= 0;
            assert((m + x).subrange(1024 * a, 1024 * (a + u)) =~= m.subrange(1024 * a, 1024 * (a + u)));
        }
    }
}

// two adjacent complete subtrees of u chunks (u a power of two) merge into the subtree of 2u chunks
pub proof fn lemma_unit_merge(m: Seq<u8>, a: nat, u: nat, key: Seq<u32>, flags: u8)
    requires
        sp_is_pow2(u as int),
        1024 * (a + 2 * u) <= m.len(),
        a + 2 * u <= 0x1_0000_0000_0000_0000,
    ensures
        sp_unit_cv(m, a, 2 * u, key, flags)
            == sp_parent_cv(sp_unit_cv(m, a, u, key, flags), sp_unit_cv(m, a + u, u, key, flags), key, flags),
{
    let x = m.subrange(1024 * (a as int), 1024 * ((a + 2 * u) as int));
    assert(x.len() == 2048 * u);
    assert(sp_num_chunks(x.len()) == 2 * u);
    lemma_pow2_double(u as int);
    lemma_lp2_of_pow2(2 * u);
    assert(sp_left_len(x.len()) == 1024 * u);
    lemma_subtree_split(x, a as u64, key, flags);
    let l = 1024 * u as int;
    assert(x.subrange(0, l) =~= m.subrange(1024 * (a as int), 1024 * ((a + u) as int)));
    assert(x.subrange(l, x.len() as int) =~= m.subrange(1024 * ((a + u) as int), 1024 * ((a + u + u) as int)));
    assert((a + l / 1024) as u64 == (a + u) as u64);
}

// Folding the stack of tu units onto the top node of the remaining bytes gives the root node of m,
// provided the remaining bytes are a non-empty right part of at most u chunks (for the hasher: the
// last chunk stays in the chunk state until more input arrives).
pub proof fn lemma_efold_estack(m: Seq<u8>, tu: nat, u: nat, key: Seq<u32>, flags: u8)
    requires
        sp_is_pow2(u as int),
        m.len() <= u64::MAX,
        1024 * (u * tu) <= m.len(),
        tu > 0 ==> 1024 * (u * tu) < m.len() <= 1024 * (u * tu) + 1024 * u,
    ensures
        sp_efold(sp_estack(m, tu, u, key, flags),
                 sp_subtree_out(m.subrange(1024 * ((u * tu) as int), m.len() as int), (u * tu) as u64, key, flags), key, flags)
            == sp_subtree_out(m, 0, key, flags),
    decreases tu,
{
    let n = (u * tu) as int;
    let st = sp_estack(m, tu, u, key, flags);
    let out = sp_subtree_out(m.subrange(1024 * n, m.len() as int), n as u64, key, flags);
    if tu == 0 {
        assert(n == 0) by (nonlinear_arith) requires n == u * tu, tu == 0;
        assert(m.subrange(0, m.len() as int) =~= m);
    } else if tu % 2 == 0 {
        assert((2 * u) * (tu / 2) == n) by (nonlinear_arith)
            requires n == u * tu, tu % 2 == 0, tu >= 0;
        lemma_pow2_double(u as int);
        lemma_efold_estack(m, tu / 2, 2 * u, key, flags);
    } else {
        let a = u * (tu - 1);
        assert(a + u == n && a >= 0 && (2 * u) * (tu / 2) == a) by (nonlinear_arith)
            requires a == u * (tu - 1), n == u * tu, tu >= 1, u >= 0, tu % 2 == 1;
        let rest = m.len() - 1024 * n;
        let xr = m.subrange(1024 * n, m.len() as int);
        let x = m.subrange(1024 * a, m.len() as int);
        let e = sp_unit_cv(m, a as nat, u, key, flags);
        assert(u >= 1);
        // the node out is not a root: its chaining value is the subtree chaining value of xr
        if xr.len() <= 1024 {
            lemma_subtree_one_chunk(xr, n as u64, key, flags);
        } else {
            lemma_subtree_split(xr, n as u64, key, flags);
        }
        assert(sp_out_cv(out) == sp_subtree_cv(xr, n as u64, key, flags));
        // x = unit a (u chunks) followed by xr (between 1 and u chunks): its left subtree is the unit
        let q = sp_num_chunks(rest as nat);
        assert(1 <= q <= u);
        assert(sp_num_chunks(x.len()) == u + q);
        lemma_lp2_concat(u, q);
        assert(sp_left_len(x.len()) == 1024 * u);
        let l = 1024 * u as int;
        assert(x.subrange(0, l) =~= m.subrange(1024 * a, 1024 * (a + u)));
        assert(x.subrange(l, x.len() as int) =~= xr);
        assert((a + l / 1024) as u64 == n as u64);
        assert(sp_subtree_out(x, a as u64, key, flags) == sp_parent_out(e, sp_out_cv(out), key, flags));
        lemma_pow2_double(u as int);
        lemma_efold_estack(m, tu / 2, 2 * u, key, flags);
        let below = sp_estack(m, tu / 2, 2 * u, key, flags);
        assert(st == below.push(e));
        assert(st.drop_last() =~= below);
        assert(st.last() == e);
    }
}
