// ---------------------------------------------------------------------------------------------
// Lemmas used by the unit `refimpl` (reference_impl/reference_impl.rs against the specification of
// blake3_spec.rs / tree_spec.rs). Everything here is PROVED (no assumptions); nothing in this file
// changes a specification function.
//   1. little-endian words <-> bytes round trips
//   2. the message permutation applied r times is the spec's index schedule sp_sched(r)
//   3. 32-bit flag words vs. the spec's 8-bit flags
//   4. the eager chaining-value stack of reference_impl::Hasher (binary digits of the chunk count)
// ---------------------------------------------------------------------------------------------

// ---- 1. words <-> bytes ------------------------------------------------------------------------
pub proof fn lemma_le32_roundtrip(w: u32)
    ensures
        sp_le32(sp_u32_le(w)) == w,
{
    assert((((w & 0xff) as u8) as u32) | ((((w >> 8) & 0xff) as u8) as u32) << 8
        | ((((w >> 16) & 0xff) as u8) as u32) << 16 | ((((w >> 24) & 0xff) as u8) as u32) << 24 == w) by (bit_vector);
}

pub proof fn lemma_u32_le_roundtrip(b0: u8, b1: u8, b2: u8, b3: u8)
    ensures
        sp_u32_le(sp_le32(seq![b0, b1, b2, b3])) == seq![b0, b1, b2, b3],
{
    let w = (b0 as u32) | ((b1 as u32) << 8) | ((b2 as u32) << 16) | ((b3 as u32) << 24);
    assert(((w & 0xff) as u8) == b0 && (((w >> 8) & 0xff) as u8) == b1 && (((w >> 16) & 0xff) as u8) == b2
        && (((w >> 24) & 0xff) as u8) == b3) by (bit_vector)
        requires
            w == (b0 as u32) | ((b1 as u32) << 8) | ((b2 as u32) << 16) | ((b3 as u32) << 24),
    ;
    assert(sp_u32_le(w) =~= seq![b0, b1, b2, b3]);
}

pub proof fn lemma_words_of_bytes(w: Seq<u32>)
    ensures
        sp_words(sp_bytes(w)) == w,
{
    let b = sp_bytes(w);
    assert forall|i: int| 0 <= i < w.len() implies sp_words(b)[i] == w[i] by {
        lemma_le32_roundtrip(w[i]);
        assert(b.subrange(4 * i, 4 * i + 4) =~= sp_u32_le(w[i]));
    }
    assert(sp_words(b) =~= w);
}

pub proof fn lemma_bytes_of_words(b: Seq<u8>)
    requires
        b.len() % 4 == 0,
    ensures
        sp_bytes(sp_words(b)) == b,
{
    let w = sp_words(b);
    assert forall|k: int| 0 <= k < b.len() implies sp_bytes(w)[k] == b[k] by {
        let i = k / 4;
        let q = b.subrange(4 * i, 4 * i + 4);
        lemma_u32_le_roundtrip(q[0], q[1], q[2], q[3]);
        assert(q =~= seq![q[0], q[1], q[2], q[3]]);
    }
    assert(sp_bytes(w) =~= b);
}

pub proof fn lemma_bytes_concat(a: Seq<u32>, b: Seq<u32>)
    ensures
        sp_bytes(a + b) == sp_bytes(a) + sp_bytes(b),
{
    assert(sp_bytes(a + b) =~= sp_bytes(a) + sp_bytes(b));
}

// ---- 2. iterated message permutation -----------------------------------------------------------
// mr is the message m0 after r applications of the paper's permutation
pub open spec fn sp_permuted(m0: Seq<u32>, mr: Seq<u32>, r: nat) -> bool {
    &&& mr.len() == 16
    &&& forall|i: int| 0 <= i < 16 ==> #[trigger] mr[i] == m0[sp_sched(r)[i]]
}

pub proof fn lemma_permuted_zero(m0: Seq<u32>)
    requires
        m0.len() == 16,
    ensures
        sp_permuted(m0, m0, 0),
{
}

// one more application: mn[i] == mr[PERM[i]]
pub proof fn lemma_permuted_step(m0: Seq<u32>, mr: Seq<u32>, mn: Seq<u32>, r: nat)
    requires
        sp_permuted(m0, mr, r),
        mn.len() == 16,
        forall|i: int| 0 <= i < 16 ==> #[trigger] mn[i] == mr[sp_perm()[i]],
    ensures
        sp_permuted(m0, mn, r + 1),
{
    assert forall|i: int| 0 <= i < 16 implies #[trigger] mn[i] == m0[sp_sched(r + 1)[i]] by {
        let p = sp_perm()[i];
        assert(0 <= p < 16);
        assert(mr[p] == m0[sp_sched(r)[p]]);
        assert(sp_sched(r + 1)[i] == sp_sched(r)[p]);
    }
}

// a round over the permuted message with the identity schedule is the spec's round r
pub proof fn lemma_round_permuted(s: Seq<u32>, m0: Seq<u32>, mr: Seq<u32>, r: nat)
    requires
        sp_permuted(m0, mr, r),
    ensures
        sp_round(s, mr, sp_sched(0)) == sp_round(s, m0, sp_sched(r)),
{
    reveal(sp_round);
    let id = sp_sched(0);
    assert(id[0] == 0 && id[1] == 1 && id[2] == 2 && id[3] == 3 && id[4] == 4 && id[5] == 5 && id[6] == 6 && id[7] == 7
        && id[8] == 8 && id[9] == 9 && id[10] == 10 && id[11] == 11 && id[12] == 12 && id[13] == 13 && id[14] == 14
        && id[15] == 15);
    assert(mr[0] == m0[sp_sched(r)[0]] && mr[1] == m0[sp_sched(r)[1]] && mr[2] == m0[sp_sched(r)[2]]
        && mr[3] == m0[sp_sched(r)[3]] && mr[4] == m0[sp_sched(r)[4]] && mr[5] == m0[sp_sched(r)[5]]
        && mr[6] == m0[sp_sched(r)[6]] && mr[7] == m0[sp_sched(r)[7]] && mr[8] == m0[sp_sched(r)[8]]
        && mr[9] == m0[sp_sched(r)[9]] && mr[10] == m0[sp_sched(r)[10]] && mr[11] == m0[sp_sched(r)[11]]
        && mr[12] == m0[sp_sched(r)[12]] && mr[13] == m0[sp_sched(r)[13]] && mr[14] == m0[sp_sched(r)[14]]
        && mr[15] == m0[sp_sched(r)[15]]);
}

// ---- 3. 32-bit flags --------------------------------------------------------------------------
pub proof fn lemma_flags32()
    ensures
        forall|f: u32| f < 256 ==> #[trigger] ((f as u8) as u32) == f,
        forall|f: u32, g: u8| f < 256 ==> #[trigger] (((f as u8) | g) as u32) == f | (g as u32),
        forall|f: u32, g: u8| f < 256 ==> #[trigger] (f | (g as u32)) < 256,
        forall|f: u32, g: u8| #[trigger] ((f | (g as u32)) as u8) == (f as u8) | g,
        forall|f: u32| #[trigger] (f | 0u32) == f,
        forall|f: u8| #[trigger] (f | 0u8) == f,
        forall|f: u8, g: u8| #[trigger] (f | g) == g | f,
        forall|f: u32, g: u32| #[trigger] (f | g) == g | f,
{
    assert(forall|f: u32| f < 256 ==> #[trigger] ((f as u8) as u32) == f) by (bit_vector);
    assert(forall|f: u32, g: u8| f < 256 ==> #[trigger] (((f as u8) | g) as u32) == f | (g as u32)) by (bit_vector);
    assert(forall|f: u32, g: u8| f < 256 ==> #[trigger] (f | (g as u32)) < 256) by (bit_vector);
    assert(forall|f: u32, g: u8| #[trigger] ((f | (g as u32)) as u8) == (f as u8) | g) by (bit_vector);
    assert(forall|f: u32| #[trigger] (f | 0u32) == f) by (bit_vector);
    assert(forall|f: u8| #[trigger] (f | 0u8) == f) by (bit_vector);
    assert(forall|f: u8, g: u8| #[trigger] (f | g) == g | f) by (bit_vector);
    assert(forall|f: u32, g: u32| #[trigger] (f | g) == g | f) by (bit_vector);
}

// ---- chunk fold ---------------------------------------------------------------------------------
// extending the chunk bytes does not change the fold over the blocks already compressed
pub proof fn lemma_ref_chunk_fold_prefix(k: Seq<u32>, c: Seq<u8>, d: Seq<u8>, nb: nat, t: u64, flags: u8)
    requires
        64 * nb <= c.len(),
    ensures
        sp_chunk_fold(k, c + d, nb, t, flags) == sp_chunk_fold(k, c, nb, t, flags),
    decreases nb,
{
    if nb > 0 {
        lemma_ref_chunk_fold_prefix(k, c, d, (nb - 1) as nat, t, flags);
        assert((c + d).subrange(64 * (nb - 1), 64 * (nb as int)) =~= c.subrange(64 * (nb - 1), 64 * (nb as int)));
    }
}
