// ---------------------------------------------------------------------------------------------
// FIXED POWER-OF-TWO GROUPS (hazmat, property C09).
// The input x (first chunk counter t0) is cut into consecutive groups of g chunks, g a power of
// two; the last group may be shorter. Group i covers the bytes
//        x[1024*g*i .. min(1024*g*(i+1), |x|)]
// and is hashed on its own as a subtree at chunk counter t0 + g*i (input offset 1024*g*i): this is
// what  Hasher::set_input_offset(1024*g*i) + update(group bytes) + finalize_non_root  returns
// (contract of finalize_non_root: sp_subtree_cv(bytes, offset / 1024)).
// Proved here (no repo code):
//   lemma_grouped_tree    the tree over the group chaining values is the chaining value of x
//   lemma_grouped_covers  the group chaining values "cover" x (sp_covers), so lemma_pairwise_covers /
//                         lemma_covers_two of tree_spec.rs apply to them
//   lemma_grouped_root    pairwise merge layers (merge_subtrees_non_root) until two chaining values
//                         remain, then merge_subtrees_root / _root_xof: the root node of x
// All products with the variable g are isolated in the small arithmetic lemmas of the first part.
// ---------------------------------------------------------------------------------------------

// number of groups of g chunks needed for n chunks
pub open spec fn sp_ngroups(n: nat, g: nat) -> nat {
    if g == 0 { 1 } else { ((n + g - 1) / (g as int)) as nat }
}

// the bytes of group i
pub open spec fn sp_group_bytes(x: Seq<u8>, g: nat, i: int) -> Seq<u8> {
    x.subrange(1024 * (g * i), sp_min(1024 * (g * (i + 1)), x.len() as int))
}

// the chaining values the caller obtains, one per group (each by its own hasher, at its own offset)
pub open spec fn sp_group_cvs(x: Seq<u8>, t0: u64, g: nat, key: Seq<u32>, flags: u8) -> Seq<SpCv> {
    Seq::new(sp_ngroups(sp_num_chunks(x.len()), g), |i: int|
        sp_subtree_cv(sp_group_bytes(x, g, i), (t0 + g * i) as u64, key, flags))
}

// the crate's driver pattern: layers of pairwise merge_subtrees_non_root until two values remain
pub open spec fn sp_pairwise_until_two(z: Seq<SpCv>, key: Seq<u32>, flags: u8) -> Seq<SpCv>
    decreases z.len(),
{
    if z.len() <= 2 { z } else { sp_pairwise_until_two(sp_pairwise(z, key, flags), key, flags) }
}

// ---- arithmetic with the variable group size (the only non-linear reasoning) ----------------------
pub proof fn lemma_gmul(g: int, a: int, b: int)
    requires
        g > 0,
    ensures
        g * (a + b) == g * a + g * b,
        g * (a - b) == g * a - g * b,
        a <= b ==> g * a <= g * b,
        a < b ==> g * a + g <= g * b,
        g * a < g * b ==> a < b,
        g * a <= g * b ==> a <= b,
        g * 0 == 0,
        g * 1 == g,
{
    assert(g * (a + b) == g * a + g * b) by (nonlinear_arith);
    assert(g * (a - b) == g * a - g * b) by (nonlinear_arith);
    assert(a <= b ==> g * a <= g * b) by (nonlinear_arith) requires g > 0;
    assert(a < b ==> g * a + g <= g * b) by (nonlinear_arith) requires g > 0;
    assert(g * a < g * b ==> a < b) by (nonlinear_arith) requires g > 0;
    assert(g * a <= g * b ==> a <= b) by (nonlinear_arith) requires g > 0;
}

// a power of two g below a power of two p divides it, the quotient is a power of two
pub proof fn lemma_pow2_div(p: int, g: int) -> (q: int)
    requires
        sp_is_pow2(p),
        sp_is_pow2(g),
        g <= p,
    ensures
        sp_is_pow2(q),
        q >= 1,
        p == g * q,
    decreases g,
{
    if g == 1 {
        assert(p == 1 * p);
        p
    } else {
        lemma_pow2_half(g);
        lemma_pow2_half(p);
        let q = lemma_pow2_div(p / 2, g / 2);
        assert(p == g * q) by (nonlinear_arith)
            requires p / 2 == (g / 2) * q, p == 2 * (p / 2), g == 2 * (g / 2);
        q
    }
}

// m = sp_ngroups(n, g) is the number with g (m - 1) < n <= g m
pub proof fn lemma_ngroups_char(n: nat, g: nat)
    requires
        g > 0,
        n >= 1,
    ensures
        sp_ngroups(n, g) >= 1,
        g * (sp_ngroups(n, g) - 1) < n,
        n <= g * sp_ngroups(n, g),
{
    let gi = g as int;
    let a = n + g - 1;
    let m = a / gi;
    assert(gi * m <= a && a < gi * m + gi) by (nonlinear_arith)
        requires gi > 0, a >= 0, m == a / gi;
    lemma_gmul(gi, m, 1);
    if m < 1 {
        lemma_gmul(gi, m, 0);
    }
}

pub proof fn lemma_ngroups_unique(n: nat, g: nat, k: int)
    requires
        g > 0,
        n >= 1,
        g * (k - 1) < n,
        n <= g * k,
    ensures
        sp_ngroups(n, g) == k,
{
    lemma_ngroups_char(n, g);
    let m = sp_ngroups(n, g) as int;
    let gi = g as int;
    if m < k {
        lemma_gmul(gi, m, k - 1);
    } else if k < m {
        lemma_gmul(gi, k, m - 1);
    }
}

// The split of n > g chunks at lp2(n) is a split of the m groups at lp2(m).
pub proof fn lemma_group_arith(n: nat, g: nat) -> (q: int)
    requires
        sp_is_pow2(g as int),
        n > g,
    ensures
        sp_is_pow2(q),
        sp_lp2(n) == g * q,
        sp_ngroups(n, g) >= 2,
        sp_lp2(sp_ngroups(n, g)) == q,
        0 < q < sp_ngroups(n, g) <= 2 * q,
        sp_ngroups(sp_lp2(n), g) == q,
        sp_ngroups((n - sp_lp2(n)) as nat, g) == sp_ngroups(n, g) - q,
{
    let gi = g as int;
    lemma_lp2(n);
    let p = sp_lp2(n) as int;
    if p < gi {
        lemma_pow2_gap(p, gi);
    }
    let q = lemma_pow2_div(p, gi);
    lemma_ngroups_char(n, g);
    let m = sp_ngroups(n, g) as int;
    // g q = p < n <= g m            ==>  q < m
    lemma_gmul(gi, q, m);
    // g (m - 1) < n <= 2 p = g (2 q)  ==>  m - 1 < 2 q
    lemma_gmul(gi, q, q);
    lemma_gmul(gi, m - 1, q + q);
    assert(m <= 2 * q);
    lemma_lp2_unique(m as nat, q);
    // the two parts
    lemma_gmul(gi, q, 1);
    lemma_ngroups_unique(p as nat, g, q);
    lemma_gmul(gi, m, q);
    lemma_gmul(gi, m - 1, q);
    assert(m - 1 - q == m - q - 1);
    lemma_ngroups_unique((n - p) as nat, g, m - q);
    q
}

// ---- the group list of a split input ---------------------------------------------------------------
// one group of the left part (the first q = lp2(m) groups)
pub proof fn lemma_group_left(x: Seq<u8>, g: nat, p: int, q: int, i: int)
    requires
        g > 0,
        p == g * q,
        0 <= i < q,
        1024 * p < x.len(),
    ensures
        sp_group_bytes(x, g, i) == sp_group_bytes(x.subrange(0, 1024 * p), g, i),
{
    let gi = g as int;
    lemma_gmul(gi, i, 1);
    lemma_gmul(gi, i + 1, q);
    lemma_gmul(gi, 0, i);
    assert(0 <= g * i);
    assert(g * (i + 1) == g * i + g);
    assert(g * (i + 1) <= p);
    assert(sp_group_bytes(x, g, i) =~= sp_group_bytes(x.subrange(0, 1024 * p), g, i));
}

// one group of the right part (groups q .. m), with its counter
pub proof fn lemma_group_right(x: Seq<u8>, g: nat, p: int, q: int, m: int, j: int)
    requires
        g > 0,
        p == g * q,
        0 <= q,
        0 <= j < m - q,
        1024 * p < x.len(),
        1024 * (g * (m - 1)) < x.len(),
    ensures
        sp_group_bytes(x, g, q + j) == sp_group_bytes(x.subrange(1024 * p, x.len() as int), g, j),
        g * (q + j) == p + g * j,
        0 <= g * j,
{
    let gi = g as int;
    lemma_gmul(gi, q, j);
    lemma_gmul(gi, q, j + 1);
    lemma_gmul(gi, j, 1);
    lemma_gmul(gi, 0, j);
    lemma_gmul(gi, q + j, m - 1);
    assert(q + j + 1 == q + (j + 1));
    assert(g * (q + j) == p + g * j);
    assert(g * (q + j + 1) == p + g * j + g);
    assert(g * (j + 1) == g * j + g);
    assert(1024 * (g * (q + j)) < x.len());
    assert(sp_group_bytes(x, g, q + j) =~= sp_group_bytes(x.subrange(1024 * p, x.len() as int), g, j));
}

// more than g chunks: the first lp2(m) group CVs are the group CVs of the left part of x, the others
// those of the right part (at counter t0 + lp2(n))
pub proof fn lemma_group_split(x: Seq<u8>, t0: u64, g: nat, key: Seq<u32>, flags: u8)
    requires
        sp_is_pow2(g as int),
        sp_num_chunks(x.len()) > g,
        t0 + sp_num_chunks(x.len()) <= 0x1_0000_0000_0000_0000,
    ensures
        ({
            let z = sp_group_cvs(x, t0, g, key, flags);
            let q = sp_lp2(z.len()) as int;
            let l = sp_left_len(x.len()) as int;
            &&& z.len() >= 2
            &&& 0 < q < z.len()
            &&& x.len() > 1024
            &&& 1024 <= l < x.len()
            &&& l % 1024 == 0
            &&& sp_num_chunks(l as nat) == l / 1024
            &&& sp_num_chunks((x.len() - l) as nat) == sp_num_chunks(x.len()) - l / 1024
            &&& z.subrange(0, q) == sp_group_cvs(x.subrange(0, l), t0, g, key, flags)
            &&& z.subrange(q, z.len() as int) == sp_group_cvs(x.subrange(l, x.len() as int), (t0 + l / 1024) as u64, g, key, flags)
        }),
{
    let n = sp_num_chunks(x.len());
    let q = lemma_group_arith(n, g);
    lemma_lp2(n);
    let p = sp_lp2(n) as int;
    let l = sp_left_len(x.len()) as int;
    assert(l == 1024 * p);
    let m = sp_ngroups(n, g) as int;
    lemma_ngroups_char(n, g);
    let z = sp_group_cvs(x, t0, g, key, flags);
    let xl = x.subrange(0, l);
    let xr = x.subrange(l, x.len() as int);
    let t1 = (t0 + p) as u64;
    assert(sp_num_chunks(xl.len()) == p);
    assert(sp_num_chunks(xr.len()) == n - p);
    let zl = sp_group_cvs(xl, t0, g, key, flags);
    let zr = sp_group_cvs(xr, t1, g, key, flags);
    assert(zl.len() == q);
    assert(zr.len() == m - q);
    assert forall|i: int| 0 <= i < q implies z[i] == zl[i] by {
        lemma_group_left(x, g, p, q, i);
    }
    assert forall|j: int| 0 <= j < m - q implies z[q + j] == #[trigger] zr[j] by {
        lemma_group_right(x, g, p, q, m, j);
    }
    assert(z.subrange(0, q) =~= zl);
    assert(z.subrange(q, m) =~= zr);
}

// ---- 1. the tree over the group chaining values -------------------------------------------------------
pub proof fn lemma_grouped_tree(x: Seq<u8>, t0: u64, g: nat, key: Seq<u32>, flags: u8)
    requires
        sp_is_pow2(g as int),
        t0 + sp_num_chunks(x.len()) <= 0x1_0000_0000_0000_0000,
    ensures
        sp_tree_cv(sp_group_cvs(x, t0, g, key, flags), key, flags) == sp_subtree_cv(x, t0, key, flags),
    decreases x.len(),
{
    let n = sp_num_chunks(x.len());
    let z = sp_group_cvs(x, t0, g, key, flags);
    if n <= g {
        // a single group: all of x
        lemma_gmul(g as int, 0, 1);
        lemma_ngroups_unique(n, g, 1);
        assert(z.len() == 1);
        assert(sp_group_bytes(x, g, 0) =~= x);
    } else {
        lemma_group_split(x, t0, g, key, flags);
        lemma_subtree_split(x, t0, key, flags);
        let l = sp_left_len(x.len()) as int;
        lemma_grouped_tree(x.subrange(0, l), t0, g, key, flags);
        lemma_grouped_tree(x.subrange(l, x.len() as int), (t0 + l / 1024) as u64, g, key, flags);
    }
}

// ---- 2. the group chaining values cover x --------------------------------------------------------------
pub proof fn lemma_grouped_covers(x: Seq<u8>, t0: u64, g: nat, key: Seq<u32>, flags: u8)
    requires
        sp_is_pow2(g as int),
        sp_num_chunks(x.len()) > g,     // at least two groups (x.len() > 1024 g)
        t0 + sp_num_chunks(x.len()) <= 0x1_0000_0000_0000_0000,
    ensures
        sp_group_cvs(x, t0, g, key, flags).len() >= 2,
        sp_covers(sp_group_cvs(x, t0, g, key, flags), x, t0, key, flags),
{
    reveal(sp_covers);
    lemma_group_split(x, t0, g, key, flags);
    let l = sp_left_len(x.len()) as int;
    lemma_grouped_tree(x.subrange(0, l), t0, g, key, flags);
    lemma_grouped_tree(x.subrange(l, x.len() as int), (t0 + l / 1024) as u64, g, key, flags);
}

// "at least two groups" in bytes
pub proof fn lemma_two_groups(len: nat, g: nat)
    requires
        g > 0,
    ensures
        len > 1024 * g <==> sp_num_chunks(len) > g,
{
}

// pairwise layers until two values remain keep the cover
pub proof fn lemma_until_two_covers(z: Seq<SpCv>, x: Seq<u8>, t0: u64, key: Seq<u32>, flags: u8)
    requires
        z.len() >= 2,
        sp_covers(z, x, t0, key, flags),
    ensures
        sp_pairwise_until_two(z, key, flags).len() == 2,
        sp_covers(sp_pairwise_until_two(z, key, flags), x, t0, key, flags),
    decreases z.len(),
{
    if z.len() > 2 {
        lemma_pairwise_covers(z, x, t0, key, flags);
        lemma_until_two_covers(sp_pairwise(z, key, flags), x, t0, key, flags);
    }
}

// ---- 3. the driver: groups, pairwise layers down to two, root merge ------------------------------------
// w = the two chaining values left after the pairwise merge_subtrees_non_root layers. Their parent node
// is the top node of the subtree over x; for t0 == 0 it is the root node of the input x, whose
// finalisation is merge_subtrees_root (sp_hash32) / merge_subtrees_root_xof (sp_stream); for any t0 its
// chaining value (one more merge_subtrees_non_root) is the subtree chaining value of x.
pub proof fn lemma_grouped_root(x: Seq<u8>, t0: u64, g: nat, key: Seq<u32>, flags: u8)
    requires
        sp_is_pow2(g as int),
        x.len() > 1024 * g,
        t0 + sp_num_chunks(x.len()) <= 0x1_0000_0000_0000_0000,
    ensures
        ({
            let w = sp_pairwise_until_two(sp_group_cvs(x, t0, g, key, flags), key, flags);
            let l = sp_left_len(x.len()) as int;
            &&& w.len() == 2
            &&& w[0] == sp_subtree_cv(x.subrange(0, l), t0, key, flags)
            &&& w[1] == sp_subtree_cv(x.subrange(l, x.len() as int), (t0 + l / 1024) as u64, key, flags)
            &&& sp_parent_out(w[0], w[1], key, flags) == sp_subtree_out(x, t0, key, flags)
            &&& sp_parent_cv(w[0], w[1], key, flags) == sp_subtree_cv(x, t0, key, flags)
            &&& t0 == 0 ==> sp_parent_out(w[0], w[1], key, flags) == sp_root_out(x, key, flags)
        }),
{
    lemma_two_groups(x.len(), g);
    lemma_grouped_covers(x, t0, g, key, flags);
    let z = sp_group_cvs(x, t0, g, key, flags);
    lemma_until_two_covers(z, x, t0, key, flags);
    let w = sp_pairwise_until_two(z, key, flags);
    lemma_covers_two(w, x, t0, key, flags);
    lemma_subtree_split(x, t0, key, flags);
}
